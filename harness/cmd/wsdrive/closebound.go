package main

import (
	"context"
	"encoding/json"
	"flag"
	"fmt"
	"sync"
	"sync/atomic"
	"time"

	"nhooyr.io/websocket"
	"verifharness/ws"
)

// ---- family: closebound (C09) ----
// Scripted adversaries x local states, run against the real code with REAL timers.  The cases
// sleep rather than compute, so they all run concurrently.

type cbRow struct {
	Adv    string `json:"adv"`
	K      int    `json:"k"`
	State  string `json:"state"`
	Op     string `json:"op"`
	Client bool   `json:"client"`
	Bound  int    `json:"bound"`
}

type cbObs struct {
	OpSeconds        float64 `json:"op_s"`
	BlockedReturnS   float64 `json:"blocked_return_s"`
	CloseReadCtxLagS float64 `json:"closeread_ctx_lag_s"`
}

func runCloseBound(rep *Report, row cbRow, closedAt *sync.Map) {
	c, raw, err := ws.NewConn(row.Client, "off", 0)
	if err != nil {
		rep.miss("handshake", row, err.Error())
		return
	}
	defer c.CloseNow()
	defer raw.Close()
	id := websocket.VerifConnID(c)
	peerMasks := !row.Client
	send := func(b []byte) { raw.Out.Write(b) }
	frame := func(f ws.Frame) []byte {
		f.Masked = peerMasks
		f.Key = [4]byte{3, 1, 4, 1}
		return f.Encode()
	}
	stop := make(chan struct{})
	defer close(stop)
	// the adversary's reading side: everything but "noread" keeps draining what the library writes
	sawClose := make(chan []byte, 1)
	if row.Adv != "noread" {
		go func() {
			var acc []byte
			tmp := make([]byte, 4096)
			for {
				n, err := raw.In.Read(tmp)
				acc = append(acc, tmp[:n]...)
				for {
					f, k, e := ws.DecodeFrame(acc)
					if e != nil {
						break
					}
					acc = acc[k:]
					if f.Op == ws.OpClose {
						select {
						case sawClose <- f.Payload:
						default:
						}
					}
				}
				if err != nil {
					return
				}
			}
		}()
	} else {
		raw.In.Cap = 1 // zero window: the library's first write blocks
	}
	// local state
	blockedDone := make(chan struct{})
	var closeReadCtx context.Context
	switch row.State {
	case "idle":
		close(blockedDone)
	case "readerBlocked":
		go func() { defer close(blockedDone); c.Read(context.Background()) }()
	case "msgHalfRead":
		send(frame(ws.Frame{Fin: false, Op: ws.OpBin, Payload: []byte("first-half")}))
		_, r, err := c.Reader(context.Background())
		if err == nil {
			buf := make([]byte, 4)
			r.Read(buf)
		}
		close(blockedDone)
	case "closeReadActive", "closeReadData":
		closeReadCtx = c.CloseRead(context.Background())
		close(blockedDone)
	case "writerHalfOpen":
		// a streaming writer left open with row.K unflushed bytes in the library's write buffer
		go func() {
			defer close(blockedDone)
			w, err := c.Writer(context.Background(), websocket.MessageBinary)
			if err == nil {
				w.Write(make([]byte, row.K))
			}
		}()
		time.Sleep(20 * time.Millisecond)
	case "writerBlocked":
		raw.In.Cap = 1
		go func() {
			defer close(blockedDone)
			c.Write(context.Background(), websocket.MessageBinary, make([]byte, 20000))
		}()
	}
	time.Sleep(30 * time.Millisecond)
	// adversary's sending side
	switch row.Adv {
	case "echo", "echoLate":
		go func() {
			select {
			case p := <-sawClose:
				if row.Adv == "echoLate" {
					time.Sleep(300 * time.Millisecond)
				}
				send(frame(ws.Frame{Fin: true, Op: ws.OpClose, Payload: p}))
			case <-stop:
			}
		}()
	case "stallHeader":
		h := frame(ws.Frame{Fin: true, Op: ws.OpBin, Payload: make([]byte, 70000)})
		send(h[:row.K])
	case "stallPayload":
		h := frame(ws.Frame{Fin: true, Op: ws.OpBin, Payload: make([]byte, 100)})
		send(h[:len(h)-100+row.K])
	case "flood":
		go func() {
			f := frame(ws.Frame{Fin: true, Op: ws.OpBin, Payload: make([]byte, 100)})
			for {
				select {
				case <-stop:
					return
				default:
				}
				if raw.Out.Buffered() < 1<<14 {
					send(f)
				}
				time.Sleep(2 * time.Millisecond)
			}
		}()
	case "endless":
		go func() {
			x := uint64(1) << 62
			h := frame(ws.Frame{Fin: true, Op: ws.OpBin, LenOverride: &x})
			send(h)
			chunk := make([]byte, 1024)
			for {
				select {
				case <-stop:
					return
				default:
				}
				if raw.Out.Buffered() < 1<<14 {
					send(chunk)
				}
				time.Sleep(2 * time.Millisecond)
			}
		}()
	case "halfclose":
		raw.Out.CloseWrite(nil)
	}
	if row.State == "closeReadData" {
		// CloseRead itself closes the connection because a data message arrives
		send(frame(ws.Frame{Fin: true, Op: ws.OpText, Payload: []byte("unexpected")}))
	}
	var obs cbObs
	t0 := time.Now()
	opDone := make(chan error, 1)
	go func() {
		if row.State == "closeReadData" {
			<-closeReadCtx.Done()
			opDone <- nil
			return
		}
		if row.Op == "Close" {
			opDone <- c.Close(websocket.StatusNormalClosure, "bye")
		} else {
			opDone <- c.CloseNow()
		}
	}()
	limit := time.Duration(row.Bound)*time.Second + 3*time.Second
	select {
	case <-opDone:
		obs.OpSeconds = time.Since(t0).Seconds()
	case <-time.After(limit):
		rep.miss("close-took-too-long", row, fmt.Sprintf("%s still blocked after %v (bound %ds)", row.Op, limit, row.Bound))
		return
	}
	if obs.OpSeconds > float64(row.Bound) {
		rep.miss("close-took-too-long", row, fmt.Sprintf("%s took %.2fs, bound %ds", row.Op, obs.OpSeconds, row.Bound))
	}
	t1 := time.Now()
	select {
	case <-blockedDone:
		obs.BlockedReturnS = time.Since(t1).Seconds()
	case <-time.After(2 * time.Second):
		rep.miss("blocked-call-did-not-return-after-close", row, "still blocked 2s after "+row.Op+" returned")
	}
	if closeReadCtx != nil {
		select {
		case <-closeReadCtx.Done():
			if v, ok := closedAt.Load(id); ok {
				lag := time.Since(v.(time.Time)).Seconds()
				obs.CloseReadCtxLagS = lag
				if lag > 3 {
					rep.miss("closeread-context-cancelled-late", row, fmt.Sprintf("%.2fs after the connection closed", lag))
				}
			}
		case <-time.After(3 * time.Second):
			rep.miss("closeread-context-cancelled-late", row, "not cancelled 3s after "+row.Op+" returned")
		}
	}
	rep.sample(map[string]interface{}{"row": row, "obs": obs})
}

func init() {
	families["closebound"] = func(args []string) error {
		fs := flag.NewFlagSet("closebound", flag.ExitOnError)
		rowsPath := fs.String("rows", "", "rows")
		stride := fs.Int("stride", 1, "use every stride-th row")
		seed := fs.Int64("seed", 1, "seed")
		fs.Parse(args)
		rep := newReport("closebound")
		var closedAt sync.Map
		websocket.VerifSink = func(e websocket.VerifEvent) {
			switch e.Ev {
			case "ClosedPost":
				closedAt.Store(e.Conn, time.Now())
			case "WgTimeout":
				rep.miss("close-needed-the-15s-goroutine-backstop", map[string]interface{}{"conn": e.Conn, "which": e.A}, "")
			}
		}
		var wg sync.WaitGroup
		var evals, rows int64
		k := 0
		sem := make(chan struct{}, 400)
		err := readNDJSON(*rowsPath, func(b []byte) error {
			k++
			if (k+int(*seed))%*stride != 0 {
				return nil
			}
			var row cbRow
			if err := json.Unmarshal(b, &row); err != nil {
				return err
			}
			rows++
			wg.Add(1)
			sem <- struct{}{}
			go func() {
				defer wg.Done()
				defer func() { <-sem }()
				runCloseBound(rep, row, &closedAt)
				atomic.AddInt64(&evals, 1)
			}()
			return nil
		})
		wg.Wait()
		if err != nil {
			return err
		}
		rep.Evaluations, rep.Rows, rep.Distinct = evals, rows, rows
		rep.print()
		return nil
	}
}
