package main

import (
	"context"
	"flag"
	"os"
	"sync"
	"time"

	"nhooyr.io/websocket"
	"verifharness/ws"
)

// ---- family: closecross (C06) ----
// Two close writers of one connection queue at the frame lock at the same time: the application's Close(code A) and the read
// loop echoing the peer's Close(code B) - both wait behind a data frame that is stalled in a full transport. When the transport
// drains, whoever gets the lock first must put ITS OWN close on the wire (TraceSend: the status code of a written Close frame is
// the one its goroutine's writeClose was asked for); what the independent peer receives must be exactly one Close frame with
// code A or code B and the reason that belongs to it.

type crossCase struct {
	Client bool `json:"client"`
	CodeA  int  `json:"codeA"`
	CodeB  int  `json:"codeB"`
	Iter   int  `json:"iter"`
}

func runCloseCross(rep *Report, cc crossCase) {
	c, raw, err := ws.NewConn(cc.Client, "off", 0)
	if err != nil {
		rep.miss("handshake", cc, err.Error())
		return
	}
	defer c.CloseNow()
	raw.In.SetCap(16) // the peer does not read for now: a data frame larger than this stalls holding the frame lock
	bg := context.Background()
	var wg sync.WaitGroup
	wg.Add(1)
	go func() {
		defer wg.Done()
		ctx, cancel := context.WithTimeout(bg, 10*time.Second)
		defer cancel()
		c.Write(ctx, websocket.MessageBinary, make([]byte, 300))
	}()
	time.Sleep(15 * time.Millisecond) // the writer is inside writeFrame, blocked in the transport
	reasonA, reasonB := "reason of the local close AAAA", "reason of the peer's close BBBBBBBB"
	// the peer's Close arrives; the reader (started now) will want to echo it
	pf := ws.Frame{Fin: true, Op: ws.OpClose, Masked: !cc.Client, Key: [4]byte{3, 1, 4, 1}, Payload: ws.ClosePayload(cc.CodeB, reasonB)}
	raw.Out.Write(pf.Encode())
	wg.Add(2)
	go func() {
		defer wg.Done()
		ctx, cancel := context.WithTimeout(bg, 10*time.Second)
		defer cancel()
		c.Read(ctx)
	}()
	go func() {
		defer wg.Done()
		if cc.Iter%2 == 1 {
			time.Sleep(time.Duration(cc.Iter%5) * 200 * time.Microsecond)
		}
		c.Close(websocket.StatusCode(cc.CodeA), reasonA)
	}()
	time.Sleep(15 * time.Millisecond) // both closers have marshalled their payload and wait for the frame lock
	// the peer starts reading again (everything the library writes from now on is kept)
	raw.In.SetCap(0)
	done := make(chan struct{})
	go func() { wg.Wait(); close(done) }()
	select {
	case <-done:
	case <-time.After(12 * time.Second):
		rep.miss("closecross-actors-pending", cc, libStacks())
		return
	}
	var got []byte
	got = append(got, raw.In.Snapshot()...)
	fs, _, _ := ws.DecodeAll(got)
	var closes []ws.Frame
	for _, f := range fs {
		if f.Op == ws.OpClose {
			closes = append(closes, f)
		}
	}
	if len(closes) != 1 {
		return // zero (torn down first) is possible; two is C16's business
	}
	p := closes[0].Payload
	okA := string(p) == string(ws.ClosePayload(cc.CodeA, reasonA))
	okB := string(p) == string(ws.ClosePayload(cc.CodeB, reasonB))
	if !okA && !okB {
		rep.miss("close-frame-payload", cc, "the Close frame the peer received is neither the local close nor the echo of its own: "+string(p[2:]))
	}
}

func init() {
	families["closecross"] = func(args []string) error {
		fs := flag.NewFlagSet("closecross", flag.ExitOnError)
		n := fs.Int("n", 24, "iterations")
		out := fs.String("conn-trace", "", "per-connection hook trace (TraceSend)")
		fs.Parse(args)
		rep := newReport("closecross")
		tr := &ws.Tracer{}
		tr.Install()
		var wg sync.WaitGroup
		sem := make(chan struct{}, 8)
		for i := 0; i < *n; i++ {
			cc := crossCase{Client: i%2 == 0, CodeA: 1000 + i%2, CodeB: 4000 + i, Iter: i}
			wg.Add(1)
			sem <- struct{}{}
			go func() {
				defer wg.Done()
				defer func() { <-sem }()
				runCloseCross(rep, cc)
			}()
			rep.Evaluations++
			rep.sample(cc)
		}
		wg.Wait()
		time.Sleep(20 * time.Millisecond)
		evs := tr.Take()
		if *out != "" {
			os.Remove(*out)
			byConn := map[int64][]websocket.VerifEvent{}
			var order []int64
			for _, e := range evs {
				if _, ok := byConn[e.Conn]; !ok {
					order = append(order, e.Conn)
				}
				byConn[e.Conn] = append(byConn[e.Conn], e)
			}
			var all []websocket.VerifEvent
			for _, id := range order {
				all = append(all, websocket.VerifEvent{Conn: id, Ev: "TraceReset"})
				all = append(all, byConn[id]...)
			}
			if err := ws.WriteNDJSON(*out, all); err != nil {
				return err
			}
		}
		rep.Distinct = int64(*n)
		rep.print()
		return nil
	}
}
