package main

import (
	"bytes"
	"context"
	"encoding/json"
	"errors"
	"flag"
	"fmt"
	"io"
	"math/rand"
	"net"
	"runtime"
	"strings"
	"sync/atomic"
	"time"

	"nhooyr.io/websocket"
	"verifharness/ws"
)

// ---- family: closetab (C06) ----

type closeRow struct {
	Dir   string `json:"dir"`
	Code  int    `json:"code"`
	Rlen  int    `json:"rlen"`
	Peer  string `json:"peer"`
	Rkind string `json:"rkind"` // content class of the reason: ascii | badutf8 (bytes that are not valid UTF-8, between valid ones)
	Pre   string `json:"pre"`   // what the local reader has consumed when Close is called (spec/WSCloseRows.tla LocalStates)
	Exp   struct {
		O    string `json:"o"`
		Code int    `json:"code"`
		Echo bool   `json:"echo"`
	} `json:"exp"`
}

type closeCase struct {
	Row    closeRow `json:"row"`
	Client bool     `json:"client"`
	Split  int      `json:"split,omitempty"` // received frames: byte offset at which the transport splits the frame
}

// closePre brings the local reader into the row's state: the peer has sent data (and control) frames of which the
// application has consumed a part.  It returns false if the state could not be reached (reported).
func closePre(rep *Report, cc closeCase, c *websocket.Conn, raw *ws.End) bool {
	pre := cc.Row.Pre
	if pre == "" || pre == "idle" {
		return true
	}
	send := func(f ws.Frame) {
		f.Masked = !cc.Client
		f.Key = [4]byte{7, 1, 8, 2}
		raw.Out.Write(f.Encode())
	}
	body := prf(int64(cc.Row.Code), 5, 300)
	want := 0 // bytes the application reads before Close
	toEnd := false
	switch pre {
	case "halfread-final-frame":
		send(ws.Frame{Fin: true, Op: ws.OpBin, Payload: body})
		want = 7
	case "halfread-last-fragment":
		send(ws.Frame{Fin: false, Op: ws.OpBin, Payload: body[:100]})
		send(ws.Frame{Fin: true, Op: ws.OpCont, Payload: body[100:]})
		want = 150
	case "halfread-first-fragment":
		send(ws.Frame{Fin: false, Op: ws.OpBin, Payload: body[:100]})
		send(ws.Frame{Fin: true, Op: ws.OpPing, Payload: []byte("mid")})
		send(ws.Frame{Fin: true, Op: ws.OpCont, Payload: body[100:]})
		want = 30
	case "nothing-read-of-two-messages-and-a-ping":
		send(ws.Frame{Fin: true, Op: ws.OpText, Payload: []byte("first")})
		send(ws.Frame{Fin: true, Op: ws.OpPing, Payload: []byte("p")})
		send(ws.Frame{Fin: false, Op: ws.OpBin, Payload: body[:10]})
		send(ws.Frame{Fin: true, Op: ws.OpCont, Payload: body[10:]})
		return true
	case "message-read-to-the-end":
		send(ws.Frame{Fin: true, Op: ws.OpBin, Payload: body})
		toEnd = true
	case "compressed-halfread":
		z := (&ws.Deflater{}).Compress(bytes.Repeat(body, 4))
		send(ws.Frame{Fin: true, Rsv1: true, Op: ws.OpBin, Payload: z})
		want = 500
	}
	ctx, cancel := context.WithTimeout(context.Background(), 5*time.Second)
	defer cancel()
	_, r, err := c.Reader(ctx)
	if err != nil {
		rep.miss("close-pre-state-not-reached", cc, "Reader: "+err.Error())
		return false
	}
	if toEnd {
		if _, err := io.ReadAll(r); err != nil {
			rep.miss("close-pre-state-not-reached", cc, "ReadAll: "+err.Error())
			return false
		}
		return true
	}
	if _, err := io.ReadFull(r, make([]byte, want)); err != nil {
		rep.miss("close-pre-state-not-reached", cc, "ReadFull: "+err.Error())
		return false
	}
	return true
}

func runCloseSend(rep *Report, cc closeCase) {
	mode := ws.Mode("off")
	if cc.Row.Pre == "compressed-halfread" {
		mode = "ct"
	}
	c, raw, err := ws.NewConn(cc.Client, mode, 0)
	if err != nil {
		rep.miss("handshake", cc, err.Error())
		return
	}
	defer c.CloseNow()
	if !closePre(rep, cc, c, raw) {
		return
	}
	reason := reasonBytes(cc.Row.Rkind, "r", cc.Row.Rlen)
	peerDone := make(chan []ws.Frame, 1)
	go func() {
		// raw peer: read frames until EOF; answer the first Close frame per row.Peer
		var acc []byte
		var got []ws.Frame
		tmp := make([]byte, 512)
		for {
			n, err := raw.In.Read(tmp)
			acc = append(acc, tmp[:n]...)
			for {
				f, k, e := ws.DecodeFrame(acc)
				if e != nil {
					break
				}
				acc = acc[k:]
				got = append(got, f)
				if f.Op == ws.OpClose && len(got) == 1 || f.Op == ws.OpClose && countOp(got, ws.OpClose) == 1 {
					var p []byte
					switch cc.Row.Peer {
					case "echo":
						p = f.Payload
					case "other":
						p = ws.ClosePayload(4000, "other")
					case "none":
						continue
					}
					e := ws.Frame{Fin: true, Op: ws.OpClose, Masked: !cc.Client, Key: [4]byte{1, 2, 3, 4}, Payload: p}
					raw.Out.Write(e.Encode())
				}
			}
			if err != nil {
				peerDone <- got
				return
			}
		}
	}()
	t0 := time.Now()
	cerr := c.Close(websocket.StatusCode(cc.Row.Code), reason)
	dur := time.Since(t0)
	// Close has returned -- whatever it returned, also for a code or reason it refused to send: the connection is closed for good
	{
		ctx, cancel := context.WithTimeout(context.Background(), time.Second)
		if err := c.Write(ctx, websocket.MessageText, []byte("x")); err == nil {
			rep.miss("write-succeeded-after-close", cc, fmt.Sprintf("right after Close returned %v", cerr))
		}
		cancel()
	}
	if err := c.CloseNow(); !errors.Is(err, net.ErrClosed) {
		rep.miss("closenow-after-close-not-ErrClosed", cc, fmt.Sprintf("CloseNow after Close (which returned %v) returned %v", cerr, err))
	}
	var frames []ws.Frame
	select {
	case frames = <-peerDone:
	case <-time.After(5 * time.Second):
		rep.miss("close-transport-not-closed", cc, "peer saw no EOF 5s after Close returned")
		raw.In.Close()
		return
	}
	var closes []ws.Frame
	for _, f := range frames {
		if f.Op == ws.OpClose {
			closes = append(closes, f)
		} else if f.Op <= 2 {
			rep.miss("data-frame-during-close", cc, "")
		}
	}
	switch cc.Row.Exp.O {
	case "frame", "empty":
		if len(closes) != 1 {
			rep.miss("close-frame-count", cc, fmt.Sprintf("%d close frames on the wire, err=%v", len(closes), cerr))
			return
		}
		want := ws.ClosePayload(cc.Row.Code, reason)
		if cc.Row.Exp.O == "empty" {
			want = nil
		}
		if !bytes.Equal(closes[0].Payload, want) {
			rep.miss("close-frame-payload", cc, fmt.Sprintf("got %x want %x", closes[0].Payload, want))
			return
		}
		switch cc.Row.Peer {
		case "echo":
			if cerr != nil && cc.Row.Exp.O == "frame" {
				rep.miss("close-error-although-peer-echoed", cc, cerr.Error())
			}
		case "other":
			// the statement fixes the result only for a peer that echoes the code; recorded, not judged (R9)
			if cerr == nil {
				atomic.AddInt64(&closeNilNoEcho, 1)
			}
		case "none":
			if cerr == nil {
				atomic.AddInt64(&closeNilNoEcho, 1)
			}
			if dur > 7*time.Second {
				rep.miss("close-took-too-long", cc, dur.String())
			}
		}
	case "error":
		if cerr == nil {
			rep.miss("close-accepted-unsendable-code-or-reason", cc, "")
		}
		if len(closes) != 0 {
			rep.miss("unsendable-close-put-on-wire", cc, fmt.Sprintf("payload %x", closes[0].Payload))
		}
	}
	// closed for good
	ctx, cancel := context.WithTimeout(context.Background(), time.Second)
	defer cancel()
	if err := c.Write(ctx, websocket.MessageText, []byte("x")); err == nil {
		rep.miss("write-succeeded-after-close", cc, "")
	}
	if err := c.Close(1000, ""); !errors.Is(err, net.ErrClosed) {
		rep.miss("close-after-close-not-ErrClosed", cc, fmt.Sprint(err))
	}
}

var closeNilNoEcho int64

// reasonBytes builds a close reason of exactly n bytes of the given content class. The length limits of RFC 6455 are in
// bytes and the reason travels verbatim: what a byte string "is" as UTF-8 must not change how many bytes go on the wire.
func reasonBytes(kind, unit string, n int) string {
	if n <= 0 {
		return ""
	}
	if kind != "badutf8" {
		return strings.Repeat(unit, n)
	}
	return strings.Repeat(unit+"\xff", n/2+1)[:n]
}

func countOp(fs []ws.Frame, op int) int {
	n := 0
	for _, f := range fs {
		if f.Op == op {
			n++
		}
	}
	return n
}

func runCloseRecv(rep *Report, cc closeCase) {
	c, raw, err := ws.NewConn(cc.Client, "off", 0)
	if err != nil {
		rep.miss("handshake", cc, err.Error())
		return
	}
	defer c.CloseNow()
	var p []byte
	reason := ""
	switch {
	case cc.Row.Rlen == -1:
	case cc.Row.Rlen == -2:
		p = []byte{3}
	default:
		reason = reasonBytes(cc.Row.Rkind, "q", cc.Row.Rlen)
		p = ws.ClosePayload(cc.Row.Code, reason)
	}
	f := ws.Frame{Fin: true, Op: ws.OpClose, Masked: !cc.Client, Key: [4]byte{9, 8, 7, 6}, Payload: p}
	enc := f.Encode()
	if cc.Split > 0 && cc.Split < len(enc) {
		// the frame reaches the library in two transport reads
		first := true
		at := cc.Split
		raw.Out.ChunkFn = func() int {
			if first {
				first = false
				return at
			}
			return 1 << 20
		}
	}
	gone := cc.Row.Peer == "gone"
	if gone {
		// the peer does not wait for the echo: everything the library writes from now on fails
		raw.In.CloseWrite(errors.New("write: connection reset by peer"))
	}
	raw.Out.Write(enc)
	raw.Out.CloseWrite(nil)
	ctx, cancel := context.WithTimeout(context.Background(), 5*time.Second)
	defer cancel()
	_, _, rerr := c.Read(ctx)
	c.CloseNow()
	frames, _, _ := ws.DecodeAll(raw.In.Snapshot())
	var closes []ws.Frame
	for _, f := range frames {
		if f.Op == ws.OpClose {
			closes = append(closes, f)
		}
	}
	switch cc.Row.Exp.O {
	case "closeErr":
		var ce websocket.CloseError
		if !errors.As(rerr, &ce) || int(ce.Code) != cc.Row.Exp.Code || ce.Reason != reason || int(websocket.CloseStatus(rerr)) != cc.Row.Exp.Code {
			rep.miss("received-close-not-reported", cc, fmt.Sprintf("err=%v", rerr))
			return
		}
		if !gone && (len(closes) != 1 || !bytes.Equal(closes[0].Payload, p)) {
			rep.miss("received-close-not-echoed-verbatim", cc, fmt.Sprintf("%d close frames", len(closes)))
		}
	case "fail":
		if rerr == nil {
			rep.miss("invalid-close-accepted", cc, "")
			return
		}
		if websocket.CloseStatus(rerr) != -1 {
			rep.miss("invalid-close-reported-as-CloseError", cc, rerr.Error())
		}
		if len(closes) > 1 {
			rep.miss("wire-extra-close-frame", cc, "")
		}
		if len(closes) == 1 && (len(closes[0].Payload) < 2 || int(closes[0].Payload[0])<<8|int(closes[0].Payload[1]) != 1002) {
			rep.miss("wire-close-code", cc, fmt.Sprintf("%x", closes[0].Payload))
		}
	}
}

func init() {
	families["closetab"] = func(args []string) error {
		fs := flag.NewFlagSet("closetab", flag.ExitOnError)
		rowsPath := fs.String("rows", "", "rows")
		seed := fs.Int64("seed", 1, "seed")
		fs.Parse(args)
		rep := newReport("closetab")
		var evals, rows int64
		jobs := make(chan func(*rand.Rand), 256)
		done := make(chan struct{})
		go func() { parallel(2*runtime.GOMAXPROCS(0), jobs, *seed); close(done) }()
		err := readNDJSON(*rowsPath, func(b []byte) error {
			var row closeRow
			if err := json.Unmarshal(b, &row); err != nil {
				return err
			}
			rows++
			for _, client := range []bool{false, true} {
				splits := []int{0}
				if row.Dir == "recv" && row.Rlen > 0 {
					hdr := 2
					if !client {
						hdr = 6
					}
					splits = []int{0, hdr + 1, hdr + 2, hdr + 3, hdr + 2 + row.Rlen/2, hdr + 1 + row.Rlen}
				}
				for _, sp := range splits {
					cc := closeCase{Row: row, Client: client, Split: sp}
					jobs <- func(*rand.Rand) {
						if cc.Row.Dir == "send" {
							runCloseSend(rep, cc)
						} else {
							runCloseRecv(rep, cc)
						}
						atomic.AddInt64(&evals, 1)
						if cc.Row.Rlen > 100 {
							rep.sample(cc)
						}
					}
				}
			}
			return nil
		})
		close(jobs)
		<-done
		if err != nil {
			return err
		}
		rep.Evaluations, rep.Rows, rep.Distinct = evals, rows, rows
		rep.Extra["close_returned_nil_without_matching_echo_(not_judged)"] = closeNilNoEcho
		rep.print()
		return nil
	}
}
