package main

import (
	"bytes"
	"context"
	"flag"
	"fmt"
	"io"
	"time"

	"nhooyr.io/websocket"
	"verifharness/ws"
)

// ---- family: closetake ----
// Close takes over the read side (waitCloseHandshake discards what the application has not read of its message) while the
// application's reader is parked on the read lock.  If Close lets go of the read lock before the connection is closed -- its
// closeWith(true) gives the lock up for another closer that holds closeMu and has not raised the flag yet (window stretched at
// that closer's CloseEnter), or its 5 s wait for the peer's Close frame runs out (window stretched at its own CloseEnter) -- the
// reader gets the lock on a connection that is still open.  C05: a read that races with Close either completes its message
// correctly or fails, and whatever bytes it returns are a prefix of that message.

type closeTakeCase struct {
	Client  bool   `json:"client"`
	Variant string `json:"variant"` // othercloser | timeout
	Iter    int    `json:"iter"`
}

func runCloseTake(rep *Report, cc closeTakeCase) {
	c, raw, err := ws.NewConn(cc.Client, "off", 0)
	if err != nil {
		rep.miss("handshake", cc, err.Error())
		return
	}
	defer raw.Close()
	defer c.CloseNow()
	ws.Stretch(c, "CloseEnter", 3*time.Millisecond)
	defer ws.Unstretch(c)
	send := func(f ws.Frame) {
		f.Masked = !cc.Client
		f.Key = [4]byte{1, 2, 3, 4}
		raw.Out.Write(f.Encode())
	}
	go func() { // the peer reads everything
		b := make([]byte, 4096)
		for {
			if _, err := raw.In.Read(b); err != nil {
				return
			}
		}
	}()
	msg := bytes.Repeat([]byte("the-message-the-application-reads."), 3) // 102 bytes
	send(ws.Frame{Fin: true, Op: ws.OpBin, Payload: msg})
	_, r, err := c.Reader(context.Background())
	if err != nil {
		rep.miss("closetake-setup", cc, err.Error())
		return
	}
	head := make([]byte, 10)
	if _, err := io.ReadFull(r, head); err != nil {
		rep.miss("closetake-setup", cc, err.Error())
		return
	}
	closeDone := make(chan struct{})
	go func() { c.Close(websocket.StatusNormalClosure, ""); close(closeDone) }()
	time.Sleep(2 * time.Millisecond) // Close has written its frame, holds the read lock and has discarded the rest of the message
	type res struct {
		b   []byte
		err error
	}
	rd := make(chan res, 1)
	go func() { b, err := io.ReadAll(r); rd <- res{b, err} }() // parks on the read lock
	time.Sleep(time.Millisecond)
	// what follows the message on the wire: bytes that are NOT part of it
	after := ws.Frame{Fin: true, Op: ws.OpPing, Payload: bytes.Repeat([]byte("#"), 120)}
	switch cc.Variant {
	case "othercloser":
		go c.CloseNow() // takes closeMu and is held at CloseEnter, the flag not yet raised
		time.Sleep(500 * time.Microsecond)
		send(ws.Frame{Fin: true, Op: ws.OpClose, Payload: ws.ClosePayload(1000, "")})
		send(after)
	case "timeout":
		send(after) // the peer never sends its Close frame: Close gives up after 5 s
	}
	select {
	case x := <-rd:
		got := append(append([]byte(nil), head...), x.b...)
		if !bytes.HasPrefix(msg, got) {
			rep.miss("read-racing-close-returned-bytes-that-are-not-of-its-message", cc, fmt.Sprintf("returned %q (err=%v)", x.b, x.err))
		} else if x.err == nil && len(got) != len(msg) {
			rep.miss("clean-end-of-partial-message", cc, fmt.Sprintf("%d of %d bytes, err=nil", len(got), len(msg)))
		}
	case <-time.After(12 * time.Second):
		rep.miss("closetake-read-did-not-return", cc, libStacks())
	}
	select {
	case <-closeDone:
	case <-time.After(12 * time.Second):
		rep.miss("close-took-too-long", cc, libStacks())
	}
}

func init() {
	families["closetake"] = func(args []string) error {
		fs := flag.NewFlagSet("closetake", flag.ExitOnError)
		n := fs.Int("n", 20, "iterations of the othercloser variant per role")
		slow := fs.Int("timeout-variant", 1, "iterations of the 5 s timeout variant per role")
		fs.Parse(args)
		rep := newReport("closetake")
		tr := &ws.Tracer{}
		tr.Install()
		tr.Gate = ws.StretchGate
		done := make(chan struct{}, 64)
		jobs := 0
		for _, client := range []bool{false, true} {
			for i := 0; i < *n; i++ {
				runCloseTake(rep, closeTakeCase{Client: client, Variant: "othercloser", Iter: i})
				rep.Evaluations++
				tr.Take()
			}
			for i := 0; i < *slow; i++ {
				jobs++
				cc := closeTakeCase{Client: client, Variant: "timeout", Iter: i}
				go func() { runCloseTake(rep, cc); done <- struct{}{} }()
			}
		}
		for ; jobs > 0; jobs-- {
			<-done
			rep.Evaluations++
		}
		rep.Distinct = 4
		rep.print()
		return nil
	}
}
