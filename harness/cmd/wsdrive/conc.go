package main

import (
	"bytes"
	"context"
	"encoding/json"
	"errors"
	"flag"
	"fmt"
	"io"
	"math/rand"
	"net"
	"os"
	"runtime"
	"strings"
	"sync"
	"sync/atomic"
	"time"

	"nhooyr.io/websocket"
	"verifharness/ws"
)

// ---- family: conc (C05, C16, C15, C20, C02, C10 traces) ----
// Seeded concurrent executions of the real Conn against an independent raw peer over a
// perturbing transport.  Hook events go to TraceConn.tla, the frames the peer sees (until
// transport EOF) go to TraceWire.tla; message-level integrity is checked here.

type concCfg struct {
	Seed      int64  `json:"seed"`
	Client    bool   `json:"client"`
	Mode      string `json:"mode"`
	Threshold int    `json:"threshold"`
	Writers   int    `json:"writers"`
	Pingers   int    `json:"pingers"`
	Reader    string `json:"reader"`    // loop | closeread | none
	Closer    string `json:"closer"`    // close | closenow | ctx | peerclose | none
	PeerEcho  string `json:"peerecho"`  // early | late | never
	PeerPongs string `json:"peerpongs"` // normal | reorder | dup | withhold | foreign
	Closer2   string `json:"closer2"`   // a second, concurrent closer: close | closenow | ""
	WriteCap  int    `json:"writecap"`  // transport buffer for library writes (0 = unbounded)
	Yield     bool   `json:"yield"`     // Gosched at hooks
	// Stretch: whoever logs this hook event on this connection is held there for StretchUS microseconds (ws.Stretch)
	Stretch   string `json:"stretch,omitempty"`
	StretchUS int    `json:"stretch_us,omitempty"`
}

type wireLine struct {
	Ev    string `json:"ev"`
	Role  string `json:"role,omitempty"`
	Flate bool   `json:"flate"`
	Hdr   []int  `json:"hdr,omitempty"`
	Code  int    `json:"code"`
	Pl    string `json:"pl"`
}

type sentMsg struct {
	writer, seq int
	data        []byte
	ok          bool // the write call returned nil
	binary      bool
}

type concRun struct {
	cfg    concCfg
	c      *websocket.Conn
	raw    *ws.End
	id     int64
	wire   []wireLine
	wmu    sync.Mutex
	sendMu sync.Mutex
	ctxSeq int64

	sentMu sync.Mutex
	sent   map[string]*sentMsg // key "w#seq"

	peerGot      []string // keys of messages the peer reassembled, in order
	peerBad      []string
	peerSent     [][]byte // data messages the peer sent to the library, in order
	libGot       [][]byte
	libGotErr    error
	peerSawClose bool
	peerEOF      chan struct{}
	pendingPings [][]byte
}

var concConnSeq int64

func msgBody(seed int64, w, seq, n int, compressible bool) []byte {
	tag := fmt.Sprintf("W%d#%d:%d:", w, seq, n)
	var body []byte
	if compressible {
		unit := prf(seed, w*1000+seq, 11)
		body = make([]byte, n)
		for i := range body {
			body[i] = unit[i%len(unit)]
		}
	} else {
		body = prf(seed, w*1000+seq, n)
	}
	return append([]byte(tag), body...)
}

func parseTag(b []byte) (key string, ok bool) {
	i := bytes.IndexByte(b, ':')
	if i < 0 || b[0] != 'W' {
		return "", false
	}
	return string(b[:i]), true
}

func (r *concRun) newCtx(parent context.Context) (context.Context, context.CancelFunc, int64) {
	id := atomic.AddInt64(&r.ctxSeq, 1)
	ctx, cancel := context.WithCancel(websocket.VerifCtx(parent, id))
	return ctx, cancel, id
}

func (r *concRun) logWire(l wireLine) {
	r.wmu.Lock()
	r.wire = append(r.wire, l)
	r.wmu.Unlock()
}

func hdrInts(b []byte) []int {
	out := make([]int, len(b))
	for i, x := range b {
		out[i] = int(x)
	}
	return out
}

// peer reads everything the library writes until transport EOF and reacts per cfg.
func (r *concRun) peerLoop(rng *rand.Rand) {
	defer close(r.peerEOF)
	libClient := r.cfg.Client
	mode := ws.Mode(r.cfg.Mode)
	c2s, s2c := mode.Takeover()
	takeover := s2c
	if libClient {
		takeover = c2s
	}
	infl := &ws.Inflater{Takeover: takeover}
	var acc []byte
	var msg []byte
	var msgComp, inMsg bool
	tmp := make([]byte, 8192)
	var heldPongs [][]byte
	send := func(f ws.Frame) {
		f.Masked = !libClient
		if f.Masked {
			rng.Read(f.Key[:])
		}
		r.sendMu.Lock() // announcement and bytes of one frame stay together: peerLoop and peerScript both send
		ws.LogPeerSent(r.c, f)
		r.raw.Out.Write(f.Encode())
		r.sendMu.Unlock()
	}
	for {
		n, err := r.raw.In.Read(tmp)
		acc = append(acc, tmp[:n]...)
		for {
			f, k, e := ws.DecodeFrame(acc)
			if e != nil {
				break
			}
			acc = acc[k:]
			l := wireLine{Ev: "Frame", Hdr: hdrInts(f.RawHeader)}
			if f.Op == ws.OpClose && len(f.Payload) >= 2 {
				l.Code = int(f.Payload[0])<<8 | int(f.Payload[1])
			}
			if f.Op >= 8 {
				l.Pl = string(f.Payload)
			}
			r.logWire(l)
			switch f.Op {
			case ws.OpPing:
				// pongs that are NOT this ping's payload: other spellings of the same number, prefixes,
				// the empty payload.  None of them may complete the Ping.
				if r.cfg.PeerPongs == "foreign" || r.cfg.PeerPongs == "withhold" {
					p := string(f.Payload)
					for _, v := range []string{"0" + p, "+" + p, p + "0", " " + p, p + " ", "", p + p, "x"} {
						if v != p {
							send(ws.Frame{Fin: true, Op: ws.OpPong, Payload: []byte(v)})
						}
					}
				}
				if r.cfg.PeerPongs == "dup" {
					send(ws.Frame{Fin: true, Op: ws.OpPong, Payload: f.Payload})
				}
				if r.cfg.PeerPongs != "withhold" {
					send(ws.Frame{Fin: true, Op: ws.OpPong, Payload: f.Payload})
				}
			case ws.OpPong:
			case ws.OpClose:
				r.peerSawClose = true
				switch r.cfg.PeerEcho {
				case "early":
					send(ws.Frame{Fin: true, Op: ws.OpClose, Payload: f.Payload})
				case "late":
					p := f.Payload
					go func() {
						time.Sleep(time.Duration(1+rng.Intn(5)) * time.Millisecond)
						send(ws.Frame{Fin: true, Op: ws.OpClose, Payload: p})
					}()
				}
			case ws.OpText, ws.OpBin:
				msg = append([]byte(nil), f.Payload...)
				msgComp = f.Rsv1
				inMsg = !f.Fin
			case ws.OpCont:
				msg = append(msg, f.Payload...)
				inMsg = !f.Fin
			}
			if f.Op <= 2 && f.Fin && !inMsg {
				plain := msg
				if msgComp {
					p2, e := infl.Decompress(msg)
					if e != nil {
						r.peerBad = append(r.peerBad, "inflate: "+e.Error())
					}
					plain = p2
				}
				key, ok := parseTag(plain)
				if !ok {
					r.peerBad = append(r.peerBad, fmt.Sprintf("untagged message %.30q", plain))
				} else {
					r.sentMu.Lock()
					sm := r.sent[key]
					r.sentMu.Unlock()
					if sm == nil || !bytes.Equal(sm.data, plain) {
						r.peerBad = append(r.peerBad, fmt.Sprintf("message %s differs from what was written (%d bytes)", key, len(plain)))
					}
					r.peerGot = append(r.peerGot, key)
				}
				msg = nil
			}
			_ = heldPongs
		}
		if err != nil {
			return
		}
	}
}

// peerScript sends pings, pongs and data messages to the library at random moments.
func (r *concRun) peerScript(rng *rand.Rand, stop <-chan struct{}) {
	libClient := r.cfg.Client
	send := func(f ws.Frame) {
		f.Masked = !libClient
		if f.Masked {
			rng.Read(f.Key[:])
		}
		r.sendMu.Lock() // announcement and bytes of one frame stay together: peerLoop and peerScript both send
		ws.LogPeerSent(r.c, f)
		r.raw.Out.Write(f.Encode())
		r.sendMu.Unlock()
	}
	if r.cfg.Pingers > 0 && r.cfg.PeerPongs != "withhold" && rng.Intn(2) == 0 {
		// the pong of the connection's first Ping, twice, possibly before that Ping has finished writing its frame
		time.Sleep(time.Duration(rng.Intn(400)) * time.Microsecond)
		send(ws.Frame{Fin: true, Op: ws.OpPong, Payload: []byte("1")})
		send(ws.Frame{Fin: true, Op: ws.OpPong, Payload: []byte("1")})
	}
	n := 2 + rng.Intn(6)
	for i := 0; i < n; i++ {
		select {
		case <-stop:
			return
		case <-time.After(time.Duration(rng.Intn(300)) * time.Microsecond):
		}
		switch rng.Intn(4) {
		case 0:
			p := []byte(fmt.Sprintf("pp%d-%d", r.id, i))
			if rng.Intn(3) == 0 {
				p = append(p, prf(r.cfg.Seed, i, 125-len(p))...)
			} else if r.cfg.Pingers > 0 && rng.Intn(3) == 0 {
				p = []byte(fmt.Sprint(1 + rng.Intn(2))) // the peer's own Ping with the payload a local Ping uses: answered, and nothing else
			}
			r.logWire(wireLine{Ev: "SentPing", Pl: string(p)})
			send(ws.Frame{Fin: true, Op: ws.OpPing, Payload: p})
		case 1:
			send(ws.Frame{Fin: true, Op: ws.OpPong, Payload: []byte("unsolicited")})
			if r.cfg.PeerPongs != "withhold" && rng.Intn(2) == 0 {
				// pongs nobody asked for (yet) whose payload a Ping of this connection uses or will use (the library numbers its
				// pings), twice in a row: they may arrive while that Ping is still writing its frame, and again afterwards
				guess := []byte(fmt.Sprint(1 + rng.Intn(3)))
				send(ws.Frame{Fin: true, Op: ws.OpPong, Payload: guess})
				send(ws.Frame{Fin: true, Op: ws.OpPong, Payload: guess})
			}
		default:
			if r.cfg.Reader != "loop" {
				continue
			}
			body := prf(r.cfg.Seed, 7000+i, rng.Intn(300))
			r.peerSent = append(r.peerSent, body)
			if rng.Intn(2) == 0 || len(body) < 2 {
				send(ws.Frame{Fin: true, Op: ws.OpBin, Payload: body})
			} else {
				h := len(body) / 2
				send(ws.Frame{Fin: false, Op: ws.OpBin, Payload: body[:h]})
				p := []byte(fmt.Sprintf("mid%d-%d", r.id, i))
				r.logWire(wireLine{Ev: "SentPing", Pl: string(p)})
				send(ws.Frame{Fin: true, Op: ws.OpPing, Payload: p})
				send(ws.Frame{Fin: true, Op: ws.OpCont, Payload: body[h:]})
			}
		}
	}
	switch r.cfg.Closer {
	case "peerclose", "bothclose": // bothclose: the local Close and the peer's own Close frame cross (two close-frame writers at once)
		reason := "peer says bye"
		if rng.Intn(3) == 0 {
			reason = reasonBytes("badutf8", "p", 100+rng.Intn(24)) // up to 123 bytes that are not valid UTF-8: echoed verbatim
		}
		if rng.Intn(5) == 0 {
			send(ws.Frame{Fin: true, Op: ws.OpClose}) // no status: the echo has an empty body too
		} else {
			send(ws.Frame{Fin: true, Op: ws.OpClose, Payload: ws.ClosePayload(4001, reason)})
		}
	case "protoerr":
		// a protocol violation makes the library write a Close frame (1002) on its own while writers are still active
		send(ws.Frame{Fin: true, Rsv2: true, Op: ws.OpText, Payload: []byte("rsv2")})
	case "toobig":
		// a message beyond the read limit: Close frame 1009
		send(ws.Frame{Fin: true, Op: ws.OpBin, Payload: make([]byte, 40000)})
	case "policy":
		// a data message while CloseRead is reading: Close frame 1008
		send(ws.Frame{Fin: true, Op: ws.OpText, Payload: []byte("unexpected data")})
	}
}

var sizeClasses = []int{0, 1, 20, 125, 126, 300, 4095, 4096, 4097, 9000}

func runConc(cfg concCfg, rep *Report, tr *ws.Tracer) *concRun {
	rng := rand.New(rand.NewSource(cfg.Seed))
	c, raw, err := ws.NewConn(cfg.Client, ws.Mode(cfg.Mode), cfg.Threshold)
	if err != nil {
		rep.miss("handshake", cfg, err.Error())
		return nil
	}
	r := &concRun{cfg: cfg, c: c, raw: raw, id: websocket.VerifConnID(c), sent: map[string]*sentMsg{}, peerEOF: make(chan struct{})}
	role := "server"
	if cfg.Client {
		role = "client"
	}
	r.logWire(wireLine{Ev: "WireReset", Role: role, Flate: ws.Mode(cfg.Mode).Flate()})
	ws.LogPeerScripted(c)
	if cfg.Stretch != "" {
		ws.Stretch(c, cfg.Stretch, time.Duration(cfg.StretchUS)*time.Microsecond)
		defer ws.Unstretch(c)
	}
	raw.In.Cap = cfg.WriteCap
	raw.Out.ChunkFn = func() int { return 1 + rand.Intn(64) }
	go r.peerLoop(rand.New(rand.NewSource(cfg.Seed + 1)))
	stopPeer := make(chan struct{})
	var pwg sync.WaitGroup
	pwg.Add(1)
	go func() { defer pwg.Done(); r.peerScript(rand.New(rand.NewSource(cfg.Seed+2)), stopPeer) }()

	bg := context.Background()
	var wg sync.WaitGroup
	apiEnd := func(id int64, err error) {
		websocket.VerifEmit(c, "ApiEnd", "", id, websocket.VerifErrClass(err))
	}
	var inflight sync.Map // ctx id -> cancel
	call := func(kind string, fn func(ctx context.Context) error) error {
		ctx, cancel, id := r.newCtx(bg)
		inflight.Store(id, cancel)
		websocket.VerifEmit(c, "ApiBegin", kind, id, 0)
		err := fn(ctx)
		apiEnd(id, err)
		inflight.Delete(id)
		websocket.VerifEmit(c, "CtxCancel", "", id, 0)
		cancel() // the idiomatic defer cancel(): must be harmless after success (C10)
		return err
	}
	for w := 0; w < cfg.Writers; w++ {
		wg.Add(1)
		go func(w int) {
			defer wg.Done()
			wr := rand.New(rand.NewSource(cfg.Seed*31 + int64(w)))
			nmsg := 1 + wr.Intn(4)
			for seq := 0; seq < nmsg; seq++ {
				size := sizeClasses[wr.Intn(len(sizeClasses))]
				data := msgBody(cfg.Seed, w, seq, size, wr.Intn(2) == 0)
				key, _ := parseTag(data)
				sm := &sentMsg{writer: w, seq: seq, data: data, binary: wr.Intn(2) == 0}
				r.sentMu.Lock()
				r.sent[key] = sm
				r.sentMu.Unlock()
				typ := websocket.MessageText
				if sm.binary {
					typ = websocket.MessageBinary
				}
				var err error
				if wr.Intn(2) == 0 {
					err = call("Write", func(ctx context.Context) (err error) {
						ro, lent, lerr := ws.Lend(data) // write-protected for the duration of the call
						if lerr != nil {
							return lerr
						}
						defer ro.Release()
						if f := ws.WithFaults(func() { err = c.Write(ctx, typ, lent) }); f != "" {
							rep.miss("caller-buffer-written-during-call", cfg, f)
							return fmt.Errorf("store into the caller's buffer")
						}
						return err
					})
				} else {
					err = call("Writer", func(ctx context.Context) error {
						wc, err := c.Writer(ctx, typ)
						if err != nil {
							return err
						}
						rest := data
						for len(rest) > 0 {
							k := 1 + wr.Intn(len(rest))
							if _, err := wc.Write(rest[:k]); err != nil {
								return err
							}
							rest = rest[k:]
							if wr.Intn(3) == 0 {
								runtime.Gosched()
							}
						}
						return wc.Close()
					})
				}
				if err == nil {
					sm.ok = true
				} else {
					return
				}
			}
		}(w)
	}
	for p := 0; p < cfg.Pingers; p++ {
		wg.Add(1)
		go func(p int) {
			defer wg.Done()
			for k := 0; k < 2; k++ {
				err := call("Ping", func(ctx context.Context) error {
					ctx2, cancel2 := context.WithTimeout(ctx, 300*time.Millisecond)
					defer cancel2()
					return c.Ping(ctx2)
				})
				if err == nil && cfg.PeerPongs == "withhold" {
					rep.miss("ping-returned-nil-although-its-pong-was-withheld", cfg, "the peer only sent pongs with other payloads")
				}
				if err != nil {
					return
				}
			}
		}(p)
	}
	readerDone := make(chan struct{})
	switch cfg.Reader {
	case "loop":
		go func() {
			defer close(readerDone)
			for {
				var b []byte
				err := call("Read", func(ctx context.Context) error {
					var err error
					_, b, err = c.Read(ctx)
					return err
				})
				if err != nil {
					r.libGotErr = err
					if cfg.Closer == "protoerr" || cfg.Closer == "toobig" || cfg.Closer == "peerclose" || cfg.Closer == "bothclose" {
						// What an application does when its read loop fails: it ends the connection.  (After an error-triggered Close
						// frame the library leaves the connection open; writers queued behind an abandoned Writer would wait for
						// the message lock until then.)  The short delay keeps the window in which writers race the Close frame.
						time.Sleep(time.Duration(1+rng.Intn(3)) * time.Millisecond)
						c.CloseNow()
					}
					return
				}
				r.libGot = append(r.libGot, b)
			}
		}()
	case "closeread":
		cctx := c.CloseRead(bg)
		go func() {
			defer close(readerDone)
			<-cctx.Done()
		}()
	default:
		close(readerDone)
	}
	// the closer fires at a seeded moment
	closerDone := make(chan struct{})
	var closeErr error
	var closeDur time.Duration
	go func() {
		defer close(closerDone)
		time.Sleep(time.Duration(rng.Intn(1500)) * time.Microsecond)
		t0 := time.Now()
		switch cfg.Closer {
		case "close", "bothclose":
			reason := "bye"
			if rng.Intn(3) == 0 {
				reason = reasonBytes("badutf8", "b", 100+rng.Intn(24))
			}
			code := websocket.StatusCode(1000 + rng.Intn(4))
			if rng.Intn(5) == 0 {
				code, reason = websocket.StatusNoStatusRcvd, "" // a Close frame with an empty body
			}
			closeErr = c.Close(code, reason)
		case "closenow":
			closeErr = c.CloseNow()
		case "closebad":
			// arguments that cannot go on the wire: Close must still close the connection and wait for its goroutines
			if rng.Intn(2) == 0 {
				c.Close(websocket.StatusAbnormalClosure, "1006 may not be sent")
			} else {
				c.Close(websocket.StatusNormalClosure, strings.Repeat("r", 124+rng.Intn(50)))
			}
		case "ctx":
			inflight.Range(func(k, v interface{}) bool {
				websocket.VerifEmit(c, "CtxCancel", "", k.(int64), 1)
				v.(context.CancelFunc)()
				return false
			})
			// A cancellation that hits a call waiting for a lock or a pong leaves the connection open
			// (decided by the C10 check); end it here so that the other actors are not wedged.
			time.Sleep(2 * time.Millisecond)
			c.CloseNow()
		}
		closeDur = time.Since(t0)
	}()
	closer2Done := make(chan struct{})
	go func() {
		defer close(closer2Done)
		if cfg.Closer2 == "" || cfg.Closer == "none" {
			return
		}
		// a second Close/CloseNow while the first closer may still be inside its handshake
		time.Sleep(time.Duration(rng.Intn(2500)) * time.Microsecond)
		if cfg.Closer2 == "close" {
			c.Close(websocket.StatusGoingAway, "second")
		} else {
			c.CloseNow()
		}
	}()
	done := make(chan struct{})
	go func() { wg.Wait(); <-closerDone; <-closer2Done; close(done) }()
	select {
	case <-done:
	case <-time.After(12 * time.Second):
		rep.miss("conc-actors-pending", cfg, "writers/pingers/closer did not finish within 12s; blocked in: "+libStacks())
	}
	close(stopPeer)
	pwg.Wait()
	if cfg.Closer != "close" && cfg.Closer != "bothclose" && cfg.Closer != "closenow" && cfg.Closer != "closebad" {
		// give the reader a moment to drain what the peer sent, then end the connection
		time.Sleep(time.Duration(200+rng.Intn(800)) * time.Microsecond)
	}
	// no library call is made without a watchdog: a call that never returns is an observation, not a hung campaign
	if !within(10*time.Second, func() { c.CloseNow() }) {
		rep.miss("closenow-did-not-return", cfg, "CloseNow still blocked after 10s; blocked in: "+libStacks())
		raw.In.Close()
		raw.Out.Close()
		select {
		case <-r.peerEOF:
		case <-time.After(2 * time.Second):
		}
		return r
	}
	select {
	case <-readerDone:
	case <-time.After(5 * time.Second):
		rep.miss("conc-reader-pending", cfg, "reader did not return within 5s of CloseNow")
	}
	select {
	case <-r.peerEOF:
	case <-time.After(5 * time.Second):
		rep.miss("conc-peer-no-eof", cfg, "transport not closed 5s after CloseNow")
		raw.In.Close()
		<-r.peerEOF
	}
	// ---- message-level checks (C05 / C02 / C01 direction library -> peer) ----
	for _, b := range r.peerBad {
		rep.miss("peer-received-corrupt-message", cfg, b)
	}
	seen := map[string]int{}
	lastSeq := map[int]int{}
	for _, k := range r.peerGot {
		seen[k]++
		if seen[k] > 1 {
			rep.miss("message-delivered-twice", cfg, k)
		}
		if sm := r.sent[k]; sm != nil {
			if last, ok := lastSeq[sm.writer]; ok && sm.seq <= last {
				rep.miss("per-writer-order-broken", cfg, fmt.Sprintf("%s after seq %d", k, last))
			}
			lastSeq[sm.writer] = sm.seq
		}
	}
	for k, sm := range r.sent {
		if sm.ok && seen[k] == 0 {
			rep.miss("acknowledged-message-never-arrived", cfg, k)
		}
	}
	// ---- library reader vs what the peer sent ----
	for i, b := range r.libGot {
		if i >= len(r.peerSent) || !bytes.Equal(b, r.peerSent[i]) {
			det := fmt.Sprintf("message %d of %d got (%d sent): got %d bytes %.20q", i, len(r.libGot), len(r.peerSent), len(b), b)
			for j, s := range r.peerSent {
				det += fmt.Sprintf(" | sent[%d] %d bytes %.20q", j, len(s), s)
			}
			rep.miss("library-reader-message-mismatch", cfg, det)
			break
		}
	}
	if closeErr != nil && cfg.Closer == "closenow" && !errors.Is(closeErr, net.ErrClosed) { // net.ErrClosed: somebody else closed first
		rep.miss("closenow-returned-error", cfg, closeErr.Error())
	}
	if closeDur > 8*time.Second {
		rep.miss("close-took-too-long", cfg, closeDur.String())
	}
	// ---- once closed, everything fails (C06) ----
	ctx, cancel := context.WithTimeout(bg, 2*time.Second)
	if !within(20*time.Second, func() {
		if err := c.Write(ctx, websocket.MessageText, []byte("x")); err == nil {
			rep.miss("write-succeeded-after-close", cfg, "")
		}
		if err := c.Ping(ctx); err == nil {
			rep.miss("ping-succeeded-after-close", cfg, "")
		}
		if _, _, err := c.Read(ctx); err == nil {
			rep.miss("read-succeeded-after-close", cfg, "")
		}
		if err := c.Close(1000, ""); !errors.Is(err, net.ErrClosed) {
			rep.miss("close-after-close-not-ErrClosed", cfg, fmt.Sprint(err))
		}
		if err := c.CloseNow(); !errors.Is(err, net.ErrClosed) {
			rep.miss("closenow-after-close-not-ErrClosed", cfg, fmt.Sprint(err))
		}
	}) {
		rep.miss("call-on-closed-connection-did-not-return", cfg, "blocked in: "+libStacks())
	}
	cancel()
	return r
}

func genConcCfg(seed int64, i int) concCfg {
	rng := rand.New(rand.NewSource(seed*1000003 + int64(i)))
	pick := func(xs ...string) string { return xs[rng.Intn(len(xs))] }
	cfg := concCfg{
		Seed:      seed*1000003 + int64(i),
		Client:    rng.Intn(2) == 0,
		Mode:      pick("off", "off", "ct", "nct", "c_nct", "s_nct"),
		Writers:   1 + rng.Intn(3),
		Pingers:   rng.Intn(3),
		Reader:    pick("loop", "loop", "loop", "closeread", "none"),
		Closer:    pick("close", "close", "closenow", "ctx", "peerclose", "bothclose", "none", "protoerr", "toobig", "policy", "closebad"),
		PeerEcho:  pick("early", "early", "late", "never"),
		PeerPongs: pick("normal", "normal", "foreign", "withhold", "dup"),
		Closer2:   pick("", "", "closenow", "close"),
		Yield:     rng.Intn(2) == 0,
	}
	if rng.Intn(3) == 0 {
		cfg.WriteCap = 1 + rng.Intn(200)
	}
	if rng.Intn(3) == 0 {
		cfg.Threshold = 1 + rng.Intn(300)
	}
	if rng.Intn(3) == 0 {
		cfg.Stretch, cfg.StretchUS = ws.StretchPoints[rng.Intn(len(ws.StretchPoints))], 50+rng.Intn(800)
	}
	if cfg.Closer == "policy" {
		cfg.Reader = "closeread"
	}
	if (cfg.Closer == "protoerr" || cfg.Closer == "toobig") && cfg.Reader == "none" {
		cfg.Reader = "loop"
	}
	if cfg.Closer == "close" && cfg.PeerEcho == "never" && rng.Intn(4) != 0 {
		cfg.PeerEcho = "early" // a never-echoing peer costs a 5 s timer; keep those rare
	}
	return cfg
}

func init() {
	families["conc"] = func(args []string) error {
		fs := flag.NewFlagSet("conc", flag.ExitOnError)
		n := fs.Int("n", 100, "number of executions")
		seed := fs.Int64("seed", 1, "seed")
		connOut := fs.String("conn-trace", "", "output NDJSON for TraceConn")
		wireOut := fs.String("wire-trace", "", "output NDJSON for TraceWire")
		par := fs.Int("par", 8, "executions in flight")
		notrace := fs.Bool("notrace", false, "leave the hook sink nil (race-detector runs, rule R10)")
		globalOrder := fs.Bool("global-order", false, "write the conn trace in the single global order (for TracePool) instead of per connection")
		fs.Parse(args)
		rep := newReport("conc")
		tr := &ws.Tracer{}
		if !*notrace {
			tr.Install()
			tr.Gate = func(e websocket.VerifEvent) {
				// cheap schedule perturbation at linearization points (outside the tracer lock)
				if e.A&1 == 0 && (e.G+int64(len(e.Ev)))%3 == 0 {
					runtime.Gosched()
				}
				ws.StretchGate(e)
			}
		}
		sem := make(chan struct{}, *par)
		var wg sync.WaitGroup
		var runsMu sync.Mutex
		var runs []*concRun
		kinds := map[string]bool{}
		for i := 0; i < *n; i++ {
			cfg := genConcCfg(*seed, i)
			kinds[fmt.Sprint(cfg.Client, cfg.Mode, cfg.Writers, cfg.Pingers, cfg.Reader, cfg.Closer, cfg.PeerEcho, cfg.WriteCap > 0)] = true
			sem <- struct{}{}
			wg.Add(1)
			go func() {
				defer wg.Done()
				defer func() { <-sem }()
				r := runConc(cfg, rep, tr)
				if r != nil {
					runsMu.Lock()
					runs = append(runs, r)
					runsMu.Unlock()
				}
				atomic.AddInt64(&rep.Evaluations, 1)
				rep.sample(cfg)
			}()
		}
		wg.Wait()
		time.Sleep(20 * time.Millisecond)
		// split the global order by connection, keeping the order within each connection
		evs := tr.Take()
		byConn := map[int64][]websocket.VerifEvent{}
		var order []int64
		for _, e := range evs {
			if _, ok := byConn[e.Conn]; !ok {
				order = append(order, e.Conn)
			}
			byConn[e.Conn] = append(byConn[e.Conn], e)
		}
		nev := 0
		if *connOut != "" && *globalOrder {
			os.Remove(*connOut)
			nev = len(evs)
			if err := ws.WriteNDJSON(*connOut, append([]websocket.VerifEvent{{Ev: "PoolReset"}}, evs...)); err != nil {
				return err
			}
		} else if *connOut != "" {
			os.Remove(*connOut)
			var all []websocket.VerifEvent
			for _, id := range order {
				all = append(all, websocket.VerifEvent{Conn: id, Ev: "TraceReset"})
				all = append(all, byConn[id]...)
			}
			nev = len(all)
			if err := ws.WriteNDJSON(*connOut, all); err != nil {
				return err
			}
		}
		nw := 0
		if *wireOut != "" {
			f, err := os.Create(*wireOut)
			if err != nil {
				return err
			}
			enc := json.NewEncoder(f)
			for _, r := range runs {
				for _, l := range r.wire {
					enc.Encode(l)
					nw++
				}
			}
			f.Close()
		}
		rep.Distinct = int64(len(kinds))
		rep.Extra["conn_events"] = nev
		rep.Extra["wire_lines"] = nw
		rep.Extra["connections"] = len(runs)
		rep.print()
		return nil
	}
}

var _ = io.EOF
var _ = strings.Contains

// libStacks summarises where goroutines are blocked inside the library (evidence for "pending" reports).
func libStacks() string {
	buf := make([]byte, 1<<20)
	buf = buf[:runtime.Stack(buf, true)]
	var out []string
	for _, blk := range strings.Split(string(buf), "\n\n") {
		if !strings.Contains(blk, "nhooyr.io/websocket.") {
			continue
		}
		var fr []string
		for _, l := range strings.Split(blk, "\n") {
			if strings.HasPrefix(l, "nhooyr.io/websocket") || strings.HasPrefix(l, "main.") {
				if i := strings.LastIndex(l, "("); i > 0 {
					l = l[:i]
				}
				fr = append(fr, strings.TrimPrefix(l, "nhooyr.io/websocket."))
			}
			if len(fr) >= 6 {
				break
			}
		}
		hdr := strings.SplitN(blk, "\n", 2)[0]
		out = append(out, hdr+" "+strings.Join(fr, " < "))
		if len(out) >= 12 {
			break
		}
	}
	return strings.Join(out, " || ")
}

// within runs fn in its own goroutine and reports whether it returned in time (the goroutine is left behind if not).
func within(d time.Duration, fn func()) bool {
	done := make(chan struct{})
	go func() { defer close(done); fn() }()
	select {
	case <-done:
		return true
	case <-time.After(d):
		return false
	}
}
