package main

import (
	"encoding/json"
	"flag"
	"fmt"

	"verifharness/ws"
)

func init() {
	families["conc-one"] = func(args []string) error {
		fs := flag.NewFlagSet("conc-one", flag.ExitOnError)
		cfgJSON := fs.String("cfg", "", "concCfg JSON")
		reps := fs.Int("reps", 1, "repetitions")
		fs.Parse(args)
		var cfg concCfg
		if err := json.Unmarshal([]byte(*cfgJSON), &cfg); err != nil {
			return err
		}
		rep := newReport("conc")
		tr := &ws.Tracer{}
		tr.Install()
		for i := 0; i < *reps; i++ {
			r := runConc(cfg, rep, tr)
			if r != nil && len(rep.Sigs) > 0 {
				fmt.Printf("peerSent=%d libGot=%d err=%v\n", len(r.peerSent), len(r.libGot), r.libGotErr)
				for j, b := range r.libGot {
					if j < len(r.peerSent) {
						fmt.Printf(" %d got %d bytes %.30q sent %d bytes %.30q\n", j, len(b), b, len(r.peerSent[j]), r.peerSent[j])
					}
				}
				break
			}
		}
		rep.print()
		return nil
	}
}
