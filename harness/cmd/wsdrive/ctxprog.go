package main

import (
	"bytes"
	"context"
	"encoding/json"
	"flag"
	"fmt"
	"math/rand"
	"os"
	"strings"
	"sync"
	"sync/atomic"
	"time"

	"nhooyr.io/websocket"
	"verifharness/ws"
)

// ---- family: ctxprog (C10) ----

type ctxStep struct {
	Op   string `json:"op"`
	When string `json:"when"`
}
type ctxRow struct {
	Steps []ctxStep `json:"steps"`
	Exp   struct {
		LastFails bool `json:"lastFails"`
		Closed    bool `json:"closed"`
	} `json:"exp"`
}
type ctxCase struct {
	Row    ctxRow `json:"row"`
	Client bool   `json:"client"`
	Mode   string `json:"mode"`
}

func runCtxProg(rep *Report, cc ctxCase, closedAt *sync.Map) {
	c, raw, err := ws.NewConn(cc.Client, ws.Mode(cc.Mode), 64)
	if err != nil {
		rep.miss("handshake", cc, err.Error())
		return
	}
	defer c.CloseNow()
	defer raw.Close()
	connID := websocket.VerifConnID(c)
	peerMasks := !cc.Client
	send := func(f ws.Frame) {
		f.Masked = peerMasks
		f.Key = [4]byte{2, 7, 1, 8}
		raw.Out.Write(f.Encode())
	}
	var withholdPong, pauseDrain int32
	go func() { // cooperative peer: drains, answers pings unless told to withhold
		var acc []byte
		tmp := make([]byte, 4096)
		for {
			for atomic.LoadInt32(&pauseDrain) == 1 && !raw.In.Closed() {
				time.Sleep(time.Millisecond)
			}
			n, err := raw.In.Read(tmp)
			acc = append(acc, tmp[:n]...)
			for {
				f, k, e := ws.DecodeFrame(acc)
				if e != nil {
					break
				}
				acc = acc[k:]
				if f.Op == ws.OpPing && atomic.LoadInt32(&withholdPong) == 0 {
					send(ws.Frame{Fin: true, Op: ws.OpPong, Payload: f.Payload})
				}
			}
			if err != nil {
				return
			}
		}
	}()
	var ctxSeq int64
	newCtx := func() (context.Context, context.CancelFunc, int64) {
		id := atomic.AddInt64(&ctxSeq, 1)
		ctx, cancel := context.WithCancel(websocket.VerifCtx(context.Background(), id))
		return ctx, cancel, id
	}
	msgNo := 0
	peerSendMsg := func(complete bool) []byte {
		msgNo++
		body := prf(int64(msgNo), msgNo, 700)
		send(ws.Frame{Fin: false, Op: ws.OpBin, Payload: body[:300]})
		send(ws.Frame{Fin: true, Op: ws.OpPing, Payload: []byte("mid")})
		if complete {
			send(ws.Frame{Fin: true, Op: ws.OpCont, Payload: body[300:]})
		}
		return body
	}
	payload := bytes.Repeat([]byte("0123456789abcdef"), 400) // 6400 bytes: several frames / compressible
	// run one call under a fresh context; cancel per `when`
	doCall := func(st ctxStep) (err error, dur time.Duration, id int64) {
		ctx, cancel, id := newCtx()
		defer cancel()
		websocket.VerifEmit(c, "ApiBegin", st.Op, id, 0)
		blocked := st.When != "afterSuccess"
		var releaseLock func()
		switch {
		case st.Op == "read" && st.When == "afterSuccess":
			peerSendMsg(true)
		case st.Op == "read" && st.When == "midMessage":
			peerSendMsg(false)
		case st.Op == "read" && strings.HasPrefix(st.When, "partialHeader"):
			// one transport write: a complete small message plus the first k bytes of the next frame's header (64-bit length form)
			k := 2
			fmt.Sscanf(st.When, "partialHeader%d", &k)
			f1 := ws.Frame{Fin: true, Op: ws.OpText, Masked: !cc.Client, Key: [4]byte{4, 3, 2, 1}, Payload: []byte("hi")}
			f2 := ws.Frame{Fin: true, Op: ws.OpBin, Masked: !cc.Client, Key: [4]byte{1, 2, 3, 4}, Payload: make([]byte, 70000)}
			e2 := f2.Encode()
			hdr := len(e2) - 70000
			if k >= hdr {
				k = hdr - 1
			}
			raw.Out.Write(append(f1.Encode(), e2[:k]...))
			hctx, hcancel, _ := newCtx()
			_, _, perr := c.Read(hctx)
			hcancel()
			if perr != nil {
				return fmt.Errorf("setup: the message in front of the partial header was not delivered: %w", perr), 0, id
			}
		case (st.Op == "write" || st.Op == "writer") && st.When == "whileBlocked":
			atomic.StoreInt32(&pauseDrain, 1) // zero window: the peer stops reading
			raw.In.Cap = 1
		case st.When == "lockWait":
			// another goroutine holds the message lock with an open Writer
			hctx, hcancel, _ := newCtx()
			w, werr := c.Writer(hctx, websocket.MessageText)
			if werr != nil {
				hcancel()
				return fmt.Errorf("setup: %w", werr), 0, id
			}
			releaseLock = func() { w.Close(); hcancel() }
		case st.When == "pongWait":
			atomic.StoreInt32(&withholdPong, 1)
		case st.Op == "read" && st.When == "pongWriteBlocked":
			// zero window: the peer has stopped reading, and pings -- the Read under test gets stuck in the pong it writes
			atomic.StoreInt32(&pauseDrain, 1)
			raw.In.Cap = 1
			send(ws.Frame{Fin: true, Op: ws.OpPing, Payload: []byte("are-you-there")})
		case st.When == "sharedCtxReadDone", st.When == "sharedCtxReadFirst", st.When == "sharedCtxWriteFirst":
			atomic.StoreInt32(&pauseDrain, 1) // writes block on a zero window
			raw.In.Cap = 1
		}
		// shared context: a second call of the other direction runs under the SAME context and completes while the
		// call under test is still blocked; only then is the context cancelled
		var auxDone chan error
		switch st.When {
		case "sharedCtxWriteDone": // under test: Read (no data pending); helper: a small Write
			auxDone = make(chan error, 1)
			go func() {
				time.Sleep(15 * time.Millisecond)
				auxDone <- c.Write(ctx, websocket.MessageText, []byte("helper write under the shared context"))
			}()
		case "sharedCtxWriteFirst": // helper Write enters first and is held by the zero window; then the Read under test; then the window opens
			auxDone = make(chan error, 1)
			go func() { auxDone <- c.Write(ctx, websocket.MessageBinary, payload) }()
			time.Sleep(15 * time.Millisecond)
			time.AfterFunc(30*time.Millisecond, func() {
				raw.In.Cap = 0
				atomic.StoreInt32(&pauseDrain, 0)
			})
		case "sharedCtxReadFirst": // helper Read enters first and waits for data; then the Write under test (zero window); then the data arrives
			auxDone = make(chan error, 1)
			go func() { _, _, e := c.Read(ctx); auxDone <- e }()
			time.Sleep(15 * time.Millisecond)
			time.AfterFunc(30*time.Millisecond, func() {
				send(ws.Frame{Fin: true, Op: ws.OpBin, Payload: []byte("helper message under the shared context")})
			})
		case "sharedCtxReadDone": // under test: Write (zero window); helper: Read of a message the peer sends
			auxDone = make(chan error, 1)
			go func() {
				time.Sleep(15 * time.Millisecond)
				// a plain message: a ping inside it would need a pong, which cannot be written while the write under test holds the frame lock
				send(ws.Frame{Fin: true, Op: ws.OpBin, Payload: []byte("helper message under the shared context")})
				_, _, e := c.Read(ctx)
				auxDone <- e
			}()
		}
		var readerDone chan error
		if st.Op == "ping" {
			// Ping needs a concurrent reader
			readerDone = make(chan error, 1)
			rctx, rcancel, rid := newCtx()
			websocket.VerifEmit(c, "ApiBegin", "read", rid, 0)
			go func() {
				_, _, e := c.Read(rctx)
				websocket.VerifEmit(c, "ApiEnd", "", rid, websocket.VerifErrClass(e))
				websocket.VerifEmit(c, "CtxCancel", "", rid, 0)
				rcancel()
				readerDone <- e
			}()
		}
		var auxErr error
		var cancelAt atomic.Value
		if blocked && auxDone != nil {
			go func() {
				auxErr = <-auxDone
				time.Sleep(20 * time.Millisecond)
				websocket.VerifEmit(c, "CtxCancel", "", id, 1)
				cancelAt.Store(time.Now())
				cancel()
			}()
		} else if blocked {
			time.AfterFunc(25*time.Millisecond, func() {
				websocket.VerifEmit(c, "CtxCancel", "", id, 1)
				cancelAt.Store(time.Now())
				cancel()
			})
		}
		t0 := time.Now()
		opDone := make(chan struct{})
		go func() {
			// watchdog: a call that does not come back 6 s after it started is reported and the connection torn down
			select {
			case <-opDone:
			case <-time.After(6 * time.Second):
				rep.miss("cancelled-call-did-not-return-promptly", cc, fmt.Sprintf("%s/%s still blocked after 6s", st.Op, st.When))
				c.CloseNow()
			}
		}()
		defer close(opDone)
		switch st.Op {
		case "read":
			_, _, err = c.Read(ctx)
		case "write":
			err = c.Write(ctx, websocket.MessageBinary, payload)
		case "writer":
			var w interface {
				Write([]byte) (int, error)
				Close() error
			}
			w, err = c.Writer(ctx, websocket.MessageText)
			if err == nil {
				_, err = w.Write(payload[:3000])
				if err == nil {
					_, err = w.Write(payload[3000:])
				}
				if err == nil {
					err = w.Close()
				}
			}
		case "ping":
			err = c.Ping(ctx)
		}
		dur = time.Since(t0)
		if t, ok := cancelAt.Load().(time.Time); ok {
			dur = time.Since(t) // "promptly" is measured from the cancellation
		}
		if auxDone != nil {
			if auxErr != nil && err != nil {
				err = fmt.Errorf("%w (helper call under the shared context failed first: %v)", err, auxErr)
			}
		}
		websocket.VerifEmit(c, "ApiEnd", "", id, websocket.VerifErrClass(err))
		if !blocked {
			websocket.VerifEmit(c, "CtxCancel", "", id, 0)
			cancel()
		}
		if readerDone != nil && !blocked {
			peerSendMsg(true) // let the helper reader finish successfully; its context is cancelled afterwards too
			select {
			case <-readerDone:
			case <-time.After(3 * time.Second):
				err = fmt.Errorf("helper reader stuck")
			}
		}
		if releaseLock != nil {
			releaseLock()
		}
		return err, dur, id
	}
	for i, st := range cc.Row.Steps {
		err, dur, _ := doCall(st)
		last := i == len(cc.Row.Steps)-1
		if err != nil && strings.HasPrefix(err.Error(), "setup:") {
			rep.miss("ctxprog-setup-failed", cc, fmt.Sprintf("step %d %s/%s: %v", i, st.Op, st.When, err)) // not a verdict of any property
			return
		}
		if st.When == "afterSuccess" {
			if err != nil {
				rep.miss("call-failed-after-earlier-contexts-were-cancelled", cc, fmt.Sprintf("step %d %s: %v", i, st.Op, err))
				return
			}
			continue
		}
		_ = last
		if err == nil {
			rep.miss("blocked-call-succeeded-although-cancelled", cc, fmt.Sprintf("step %d %s/%s", i, st.Op, st.When))
			return
		}
		if dur > 2*time.Second {
			rep.miss("cancelled-call-did-not-return-promptly", cc, fmt.Sprintf("step %d %s/%s took %v", i, st.Op, st.When, dur))
		}
	}
	// end state
	time.Sleep(30 * time.Millisecond)
	_, isClosed := closedAt.Load(connID)
	if cc.Row.Exp.Closed {
		deadline := time.Now().Add(2 * time.Second)
		for !isClosed && time.Now().Before(deadline) {
			time.Sleep(10 * time.Millisecond)
			_, isClosed = closedAt.Load(connID)
		}
		if !isClosed {
			rep.miss("context-expiry-left-connection-open", cc, "no close() within 2s of the cancelled call returning")
			return
		}
		ctx, cancel := context.WithTimeout(context.Background(), time.Second)
		defer cancel()
		if err := c.Write(ctx, websocket.MessageText, []byte("x")); err == nil {
			rep.miss("write-succeeded-after-close", cc, "")
		}
		return
	}
	if isClosed {
		rep.miss("connection-closed-although-every-call-succeeded", cc, "")
		return
	}
	// every context was cancelled after success: a full round trip must still work
	ctx, cancel, id := newCtx()
	defer cancel()
	websocket.VerifEmit(c, "ApiBegin", "write", id, 0)
	raw.In.Cap = 0
	if err := c.Write(ctx, websocket.MessageText, []byte("still alive")); err != nil {
		rep.miss("call-failed-after-earlier-contexts-were-cancelled", cc, "final write: "+err.Error())
		return
	}
	want := peerSendMsg(true)
	_, got, err := c.Read(ctx)
	if err != nil || !bytes.Equal(got, want) {
		rep.miss("call-failed-after-earlier-contexts-were-cancelled", cc, fmt.Sprintf("final read: %v", err))
	}
	websocket.VerifEmit(c, "ApiEnd", "", id, websocket.VerifErrClass(err))
}

func init() {
	families["ctxprog"] = func(args []string) error {
		fs := flag.NewFlagSet("ctxprog", flag.ExitOnError)
		rowsPath := fs.String("rows", "", "rows")
		seed := fs.Int64("seed", 1, "seed")
		connOut := fs.String("conn-trace", "", "output NDJSON for TraceConn")
		fs.Parse(args)
		rep := newReport("ctxprog")
		tr := &ws.Tracer{}
		var closedAt sync.Map
		tr.Install()
		tr.Gate = func(e websocket.VerifEvent) {
			if e.Ev == "ClosedPost" {
				closedAt.Store(e.Conn, time.Now())
			}
		}
		var evals, rows int64
		jobs := make(chan func(*rand.Rand), 64)
		done := make(chan struct{})
		go func() { parallel(32, jobs, *seed); close(done) }()
		err := readNDJSON(*rowsPath, func(b []byte) error {
			var row ctxRow
			if err := json.Unmarshal(b, &row); err != nil {
				return err
			}
			rows++
			for _, client := range []bool{false, true} {
				for _, mode := range []string{"off", "ct"} {
					cc := ctxCase{Row: row, Client: client, Mode: mode}
					jobs <- func(*rand.Rand) {
						runCtxProg(rep, cc, &closedAt)
						atomic.AddInt64(&evals, 1)
						if len(cc.Row.Steps) == 3 {
							rep.sample(cc)
						}
					}
				}
			}
			return nil
		})
		close(jobs)
		<-done
		if err != nil {
			return err
		}
		time.Sleep(50 * time.Millisecond)
		if *connOut != "" {
			evs := tr.Take()
			byConn := map[int64][]websocket.VerifEvent{}
			var order []int64
			for _, e := range evs {
				if _, ok := byConn[e.Conn]; !ok {
					order = append(order, e.Conn)
				}
				byConn[e.Conn] = append(byConn[e.Conn], e)
			}
			os.Remove(*connOut)
			var all []websocket.VerifEvent
			for _, id := range order {
				all = append(all, websocket.VerifEvent{Conn: id, Ev: "TraceReset"})
				all = append(all, byConn[id]...)
			}
			if err := ws.WriteNDJSON(*connOut, all); err != nil {
				return err
			}
			rep.Extra["conn_events"] = len(all)
		}
		rep.Evaluations, rep.Rows, rep.Distinct = evals, rows, rows
		rep.print()
		return nil
	}
}
