package main

import (
	"bufio"
	"bytes"
	"context"
	"encoding/base64"
	"encoding/json"
	"flag"
	"fmt"
	"io"
	"math/rand"
	"net"
	"net/http"
	"reflect"
	"runtime"
	"strings"
	"sync/atomic"
	"time"

	"nhooyr.io/websocket"
	"verifharness/ws"
)

// ---- shared concretisation ----

type rw struct {
	hdr      http.Header
	status   int
	body     bytes.Buffer
	conn     net.Conn
	hijacked bool
}

func (w *rw) Header() http.Header         { return w.hdr }
func (w *rw) Write(p []byte) (int, error) { return w.body.Write(p) }
func (w *rw) WriteHeader(s int) {
	if w.status == 0 {
		w.status = s
	}
}
func (w *rw) Hijack() (net.Conn, *bufio.ReadWriter, error) {
	w.hijacked = true
	return w.conn, bufio.NewReadWriter(bufio.NewReader(w.conn), bufio.NewWriter(w.conn)), nil
}

const goodKey = "dGhlIHNhbXBsZSBub25jZQ=="

func joinLines(name string, lines [][]string) string {
	var b strings.Builder
	for _, l := range lines {
		b.WriteString(name + ": " + strings.Join(l, ", ") + "\r\n")
	}
	return b.String()
}

// ---- family: accept (C11) ----

type c11Row struct {
	Req struct {
		Method    string     `json:"method"`
		Proto     string     `json:"proto"`
		Conn      [][]string `json:"conn"`
		Upg       [][]string `json:"upg"`
		Version   string     `json:"version"`
		Key       string     `json:"key"`
		Offered   []string   `json:"offered"`
		Supported []string   `json:"supported"`
	} `json:"req"`
	Exp struct {
		Upgrade bool   `json:"upgrade"`
		Sub     string `json:"sub"`
	} `json:"exp"`
}

// sameBytes returns another base64 spelling of the 20 bytes v encodes: the 27th character carries four bits of the digest and
// two padding bits, which a lenient decoder ignores.
func sameBytes(v string) string {
	const alpha = "ABCDEFGHIJKLMNOPQRSTUVWXYZabcdefghijklmnopqrstuvwxyz0123456789+/"
	if len(v) != 28 {
		return v + "A"
	}
	i := strings.IndexByte(alpha, v[26])
	return v[:26] + string(alpha[i^1]) + v[27:]
}

func runAcceptRow(rep *Report, row *c11Row) {
	var b strings.Builder
	b.WriteString(row.Req.Method + " /chat HTTP/" + row.Req.Proto + "\r\nHost: example.com\r\n")
	b.WriteString(joinLines("Connection", row.Req.Conn))
	b.WriteString(joinLines("Upgrade", row.Req.Upg))
	if row.Req.Version != "missing" {
		for _, v := range strings.Split(row.Req.Version, "|") { // "8|13": two header lines
			b.WriteString("Sec-WebSocket-Version: " + v + "\r\n")
		}
	}
	keyForAccept := goodKey
	switch row.Req.Key {
	case "ok16":
		b.WriteString("Sec-WebSocket-Key: " + goodKey + "\r\n")
	case "ok16spaces":
		b.WriteString("Sec-WebSocket-Key:   " + goodKey + "  \r\n")
	case "short":
		b.WriteString("Sec-WebSocket-Key: " + base64.StdEncoding.EncodeToString([]byte("12345678")) + "\r\n")
	case "long":
		b.WriteString("Sec-WebSocket-Key: " + base64.StdEncoding.EncodeToString([]byte("123456789012345678901234")) + "\r\n")
	case "dec14", "dec15", "dec17", "dec18":
		n := map[string]int{"dec14": 14, "dec15": 15, "dec17": 17, "dec18": 18}[row.Req.Key]
		b.WriteString("Sec-WebSocket-Key: " + base64.StdEncoding.EncodeToString([]byte("ABCDEFGHIJKLMNOPQRSTUVWXYZ")[:n]) + "\r\n")
	case "ok16noncanon":
		// decodes to 16 bytes, but the last sextet carries non-zero padding bits: the accept value must be computed from
		// the key exactly as sent (RFC 6455 4.2.2 /5.4), not from a re-encoding of the decoded nonce
		keyForAccept = "dGhlIHNhbXBsZSBub25jZR=="
		b.WriteString("Sec-WebSocket-Key: " + keyForAccept + "\r\n")
	case "ok16nopad":
		// 16 bytes but without the '=' padding: not a valid standard base64 encoding of 16 bytes
		b.WriteString("Sec-WebSocket-Key: " + strings.TrimRight(goodKey, "=") + "\r\n")
	case "ok16urlsafe":
		// URL-safe alphabet: '-' and '_' are not part of the standard alphabet
		b.WriteString("Sec-WebSocket-Key: " + base64.URLEncoding.EncodeToString([]byte{0xfb, 0xff, 0xfe, 0xfb, 0xff, 0xfe, 0xfb, 0xff, 0xfe, 0xfb, 0xff, 0xfe, 0xfb, 0xff, 0xfe, 0xfb}) + "\r\n")
	case "nonb64":
		b.WriteString("Sec-WebSocket-Key: !!!not*base64!!!\r\n")
	case "missing":
	case "twoLines":
		b.WriteString("Sec-WebSocket-Key: " + goodKey + "\r\nSec-WebSocket-Key: " + goodKey + "\r\n")
	case "empty":
		b.WriteString("Sec-WebSocket-Key:\r\n")
	// two header lines, one of them blank: still not "exactly one key" (and whichever value the verifier looked at, the
	// accept value is computed from the first line)
	case "blankThenOk":
		b.WriteString("Sec-WebSocket-Key:\r\nSec-WebSocket-Key: " + goodKey + "\r\n")
	case "okThenBlank":
		b.WriteString("Sec-WebSocket-Key: " + goodKey + "\r\nSec-WebSocket-Key:\r\n")
	case "spacesThenOk":
		b.WriteString("Sec-WebSocket-Key:    \r\nSec-WebSocket-Key: " + goodKey + "\r\n")
	case "commaJoined":
		b.WriteString("Sec-WebSocket-Key: " + goodKey + ", " + goodKey + "\r\n")
	}
	if len(row.Req.Offered) > 0 {
		b.WriteString("Sec-WebSocket-Protocol: " + strings.Join(row.Req.Offered, ", ") + "\r\n")
	}
	b.WriteString("\r\n")
	r, err := http.ReadRequest(bufio.NewReader(strings.NewReader(b.String())))
	if err != nil {
		// net/http itself refuses the request text: the library is never reached
		atomic.AddInt64(&acceptUnparsable, 1)
		return
	}
	a, peer := ws.Pipe()
	defer peer.Close()
	w := &rw{hdr: http.Header{}, conn: a}
	c, aerr := websocket.Accept(w, r, &websocket.AcceptOptions{Subprotocols: row.Req.Supported})
	if c != nil {
		defer c.CloseNow()
	}
	if row.Exp.Upgrade {
		if c == nil || aerr != nil || !w.hijacked || w.status != 101 {
			rep.miss("accept-refused-valid-request", row, fmt.Sprintf("status=%d hijacked=%v err=%v", w.status, w.hijacked, aerr))
			return
		}
		if got := w.hdr.Get("Sec-WebSocket-Accept"); got != ws.AcceptKey(keyForAccept) {
			rep.miss("accept-key-wrong", row, got)
		}
		if !strings.EqualFold(w.hdr.Get("Upgrade"), "websocket") || !strings.EqualFold(w.hdr.Get("Connection"), "upgrade") {
			rep.miss("accept-response-headers", row, fmt.Sprint(w.hdr))
		}
		if got := w.hdr.Get("Sec-WebSocket-Protocol"); got != row.Exp.Sub || c.Subprotocol() != row.Exp.Sub {
			rep.miss("accept-subprotocol", row, fmt.Sprintf("header %q conn %q want %q", got, c.Subprotocol(), row.Exp.Sub))
		}
		return
	}
	if c != nil || aerr == nil || w.hijacked {
		rep.miss("accept-upgraded-invalid-request", row, fmt.Sprintf("status=%d hijacked=%v", w.status, w.hijacked))
		return
	}
	if w.status < 400 {
		rep.miss("accept-invalid-request-without-error-status", row, fmt.Sprintf("status=%d", w.status))
	}
}

var acceptUnparsable int64

// ---- family: origin (C12) ----

type originRow struct {
	O struct {
		Form     string   `json:"form"`
		Scheme   string   `json:"scheme"`
		Userinfo string   `json:"userinfo"`
		Host     []string `json:"host"`
		Port     string   `json:"port"`
		Tail     string   `json:"tail"`
	} `json:"o"`
	Rh struct {
		H    []string `json:"h"`
		Port string   `json:"port"`
	} `json:"rh"`
	Pats [][]string `json:"pats"`
	Skip bool       `json:"skip"`
	Exp  string     `json:"exp"`
}

var words = map[string]string{"a": "example", "A": "EXAMPLE", "b": "evil", "B": "EVIL", "c": "com", "C": "COM"}

func word(ts []string) string {
	var b strings.Builder
	for _, t := range ts {
		if w, ok := words[t]; ok {
			b.WriteString(w)
		} else {
			b.WriteString(t)
		}
	}
	return b.String()
}

func runOriginRow(rep *Report, row *originRow) {
	reqHost := word(row.Rh.H)
	if row.Rh.Port != "" {
		reqHost += ":" + row.Rh.Port
	}
	r, _ := http.NewRequest("GET", "http://"+reqHost+"/", nil)
	r.Host = reqHost
	r.Header.Set("Connection", "Upgrade")
	r.Header.Set("Upgrade", "websocket")
	r.Header.Set("Sec-WebSocket-Version", "13")
	r.Header.Set("Sec-WebSocket-Key", goodKey)
	var origin string
	switch row.O.Form {
	case "none":
	case "null":
		origin = "null"
	case "schemeless":
		origin = word(row.O.Host)
	case "opaque":
		origin = "about:" + word(row.O.Host)
	case "url":
		origin = row.O.Scheme + "://"
		switch row.O.Userinfo {
		case "user":
			origin += "user@"
		case "REQHOST":
			origin += reqHost + "@"
		}
		origin += word(row.O.Host)
		if row.O.Port != "" {
			origin += ":" + row.O.Port
		}
		origin += strings.ReplaceAll(row.O.Tail, "REQHOST", reqHost)
	}
	if row.O.Form != "none" {
		r.Header.Set("Origin", origin)
	}
	var pats []string
	for _, p := range row.Pats {
		pats = append(pats, word(p))
	}
	a, peer := ws.Pipe()
	defer peer.Close()
	w := &rw{hdr: http.Header{}, conn: a}
	c, err := websocket.Accept(w, r, &websocket.AcceptOptions{OriginPatterns: pats, InsecureSkipVerify: row.Skip})
	if c != nil {
		defer c.CloseNow()
	}
	id := map[string]interface{}{"origin": origin, "host": reqHost, "patterns": pats, "skip": row.Skip, "exp": row.Exp}
	switch row.Exp {
	case "accept":
		if c == nil || err != nil || w.status != 101 {
			rep.miss("origin-authorised-request-refused", id, fmt.Sprintf("status=%d err=%v", w.status, err))
		}
	case "refuse":
		if c != nil || w.hijacked {
			rep.miss("origin-cross-origin-request-accepted", id, "")
		} else if w.status != 403 {
			rep.miss("origin-refusal-status-not-403", id, fmt.Sprint(w.status))
		}
	case "open":
		if (c != nil) != w.hijacked {
			rep.miss("origin-inconsistent-outcome", id, "")
		}
		if c == nil {
			atomic.AddInt64(&originOpenRefused, 1)
		} else {
			atomic.AddInt64(&originOpenAccepted, 1)
		}
	}
}

var originOpenRefused, originOpenAccepted int64

// ---- extensions ----

type extParam struct {
	N string `json:"n"`
	V string `json:"v"`
}
type extEntry struct {
	Name   string     `json:"name"`
	Params []extParam `json:"params"`
}

func extHeader(es []extEntry) string {
	var parts []string
	for _, e := range es {
		s := e.Name
		for _, p := range e.Params {
			s += "; " + p.N
			if p.V != "" {
				s += "=" + p.V
			}
		}
		parts = append(parts, s)
	}
	return strings.Join(parts, ", ")
}

func modeOf(m string) websocket.CompressionMode {
	switch m {
	case "ct":
		return websocket.CompressionContextTakeover
	case "nct":
		return websocket.CompressionNoContextTakeover
	}
	return websocket.CompressionDisabled
}

// parseExt parses a Sec-WebSocket-Extensions value the library produced.
func parseExt(v string) (on, cnct, snct bool, other []string) {
	if strings.TrimSpace(v) == "" {
		return
	}
	for i, ext := range strings.Split(v, ",") {
		fields := strings.Split(ext, ";")
		name := strings.TrimSpace(fields[0])
		if i > 0 || name != "permessage-deflate" {
			other = append(other, "ext:"+name)
			continue
		}
		on = true
		for _, p := range fields[1:] {
			switch strings.TrimSpace(p) {
			case "client_no_context_takeover":
				cnct = true
			case "server_no_context_takeover":
				snct = true
			default:
				other = append(other, strings.TrimSpace(p))
			}
		}
	}
	return
}

func exchangeBody(seed int64, k int) []byte {
	// every message repeats the previous one's unit so that a context-takeover sender emits back-references across messages
	var b []byte
	for j := 0; j <= k; j++ {
		unit := prf(seed, j, 40)
		for r := 0; r < 12; r++ {
			b = append(b, unit...)
		}
	}
	return append([]byte(fmt.Sprintf("m%d:", k)), b...)
}

// exchange runs a compressed multi-message exchange in both directions between the library endpoint c
// and a reference peer on raw that applies exactly the negotiated parameters.
func exchange(c *websocket.Conn, raw *ws.End, libClient bool, cnct, snct bool, seed int64) error {
	ctx, cancel := context.WithTimeout(context.Background(), 5*time.Second)
	defer cancel()
	const n = 4
	// library -> peer
	for k := 0; k < n; k++ {
		if err := c.Write(ctx, websocket.MessageBinary, exchangeBody(seed, k)); err != nil {
			return fmt.Errorf("library write %d: %w", k, err)
		}
	}
	frames, rest, err := ws.DecodeAll(raw.In.Snapshot())
	if err != nil || len(rest) != 0 {
		return fmt.Errorf("peer cannot parse library frames: %v (%d bytes left)", err, len(rest))
	}
	libToPeerTakeover := !snct
	if libClient {
		libToPeerTakeover = !cnct
	}
	infl := &ws.Inflater{Takeover: libToPeerTakeover}
	k := 0
	var cur []byte
	comp := false
	sawCompressed := false
	for _, f := range frames {
		if f.Op > 2 {
			continue
		}
		if f.Op != ws.OpCont {
			cur, comp = nil, f.Rsv1
		}
		cur = append(cur, f.Payload...)
		if !f.Fin {
			continue
		}
		plain := cur
		if comp {
			sawCompressed = true
			plain, err = infl.Decompress(cur)
			if err != nil {
				return fmt.Errorf("peer cannot inflate message %d with takeover=%v: %v", k, libToPeerTakeover, err)
			}
		}
		if !bytes.Equal(plain, exchangeBody(seed, k)) {
			return fmt.Errorf("peer decoded message %d differently (takeover=%v)", k, libToPeerTakeover)
		}
		k++
	}
	if k != n {
		return fmt.Errorf("peer saw %d of %d messages", k, n)
	}
	if !sawCompressed {
		return fmt.Errorf("library did not compress although permessage-deflate was agreed")
	}
	// peer -> library
	peerToLibTakeover := !cnct
	if libClient {
		peerToLibTakeover = !snct
	}
	defl := &ws.Deflater{Takeover: peerToLibTakeover}
	for k := 0; k < n; k++ {
		f := ws.Frame{Fin: true, Rsv1: true, Op: ws.OpBin, Masked: !libClient, Key: [4]byte{7, 9, 11, 13}, Payload: defl.Compress(exchangeBody(seed+1, k))}
		raw.Out.Write(f.Encode())
	}
	for k := 0; k < n; k++ {
		_, b, err := c.Read(ctx)
		if err != nil {
			return fmt.Errorf("library read %d (peer takeover=%v): %w", k, peerToLibTakeover, err)
		}
		if !bytes.Equal(b, exchangeBody(seed+1, k)) {
			return fmt.Errorf("library decoded message %d differently (peer takeover=%v)", k, peerToLibTakeover)
		}
	}
	return nil
}

// exchangePlain is the exchange on a connection whose handshake did NOT agree on permessage-deflate (no offer, offer declined,
// response without the extension): the library must not compress -- no frame carries RSV1 -- whatever its own options say, and
// plain messages travel both ways.
func exchangePlain(c *websocket.Conn, raw *ws.End, libClient bool, seed int64) error {
	ctx, cancel := context.WithTimeout(context.Background(), 5*time.Second)
	defer cancel()
	const n = 3
	for k := 0; k < n; k++ {
		if err := c.Write(ctx, websocket.MessageBinary, exchangeBody(seed, k)); err != nil {
			return fmt.Errorf("library write %d: %w", k, err)
		}
	}
	frames, rest, err := ws.DecodeAll(raw.In.Snapshot())
	if err != nil || len(rest) != 0 {
		return fmt.Errorf("peer cannot parse library frames: %v (%d bytes left)", err, len(rest))
	}
	k := 0
	var cur []byte
	for _, f := range frames {
		if f.Rsv1 {
			return fmt.Errorf("library sent a frame with RSV1 (a compressed message) although permessage-deflate was not agreed")
		}
		if f.Op > 2 {
			continue
		}
		if f.Op != ws.OpCont {
			cur = nil
		}
		cur = append(cur, f.Payload...)
		if f.Fin {
			if !bytes.Equal(cur, exchangeBody(seed, k)) {
				return fmt.Errorf("peer received message %d changed", k)
			}
			k++
		}
	}
	if k != n {
		return fmt.Errorf("peer saw %d of %d messages", k, n)
	}
	for k := 0; k < n; k++ {
		f := ws.Frame{Fin: true, Op: ws.OpBin, Masked: !libClient, Key: [4]byte{7, 9, 11, 13}, Payload: exchangeBody(seed+1, k)}
		raw.Out.Write(f.Encode())
	}
	for k := 0; k < n; k++ {
		_, b, err := c.Read(ctx)
		if err != nil {
			return fmt.Errorf("library read %d: %w", k, err)
		}
		if !bytes.Equal(b, exchangeBody(seed+1, k)) {
			return fmt.Errorf("library delivered message %d changed", k)
		}
	}
	return nil
}

// ---- family: nego (C14) ----

type c14SrvRow struct {
	Offers []extEntry `json:"offers"`
	Mode   string     `json:"mode"`
	Exp    struct {
		On   bool `json:"on"`
		Cnct bool `json:"cnct"`
		Snct bool `json:"snct"`
	} `json:"exp"`
}

func runNegoSrv(rep *Report, row *c14SrvRow, seed int64, multiline bool) {
	a, peer := ws.Pipe()
	defer peer.Close()
	r, _ := http.NewRequest("GET", "http://example.com/", nil)
	r.Header.Set("Connection", "Upgrade")
	r.Header.Set("Upgrade", "websocket")
	r.Header.Set("Sec-WebSocket-Version", "13")
	r.Header.Set("Sec-WebSocket-Key", goodKey)
	if multiline {
		for _, o := range row.Offers {
			r.Header.Add("Sec-WebSocket-Extensions", extHeader([]extEntry{o}))
		}
	} else if len(row.Offers) > 0 {
		r.Header.Set("Sec-WebSocket-Extensions", extHeader(row.Offers))
	}
	w := &rw{hdr: http.Header{}, conn: a}
	c, err := websocket.Accept(w, r, &websocket.AcceptOptions{CompressionMode: modeOf(row.Mode), CompressionThreshold: 16})
	id := map[string]interface{}{"offer": r.Header.Values("Sec-WebSocket-Extensions"), "mode": row.Mode, "exp": row.Exp}
	if err != nil || c == nil {
		rep.miss("nego-accept-failed", id, fmt.Sprint(err))
		return
	}
	defer c.CloseNow()
	resp := w.hdr.Get("Sec-WebSocket-Extensions")
	id["response"] = resp
	on, cnct, snct, other := parseExt(resp)
	if len(w.hdr.Values("Sec-WebSocket-Extensions")) > 1 || len(other) > 0 {
		rep.miss("nego-server-answered-forbidden-or-unknown-parameter", id, fmt.Sprint(other))
		return
	}
	if on != row.Exp.On {
		sig := "nego-server-accepted-offer-it-must-decline"
		if !on {
			sig = "nego-server-declined-acceptable-offer"
		}
		rep.miss(sig, id, "")
		return
	}
	if !on {
		if err := exchangePlain(c, peer, false, seed); err != nil {
			rep.miss("nego-compression-used-without-agreement", id, err.Error())
		}
		return
	}
	if snct != row.Exp.Snct {
		rep.miss("nego-server_no_context_takeover-not-echoed", id, "")
		return
	}
	// client_no_context_takeover in the response is at the server's discretion (RFC 7692 7.1.1.2) unless the offer carried it
	if row.Exp.Cnct && !cnct {
		rep.miss("nego-client_no_context_takeover-dropped", id, "")
		return
	}
	if err := exchange(c, peer, false, cnct, snct, seed); err != nil {
		rep.miss("nego-exchange-failed-under-agreed-parameters", id, err.Error())
	}
}

type c14CliRow struct {
	Resp []extEntry `json:"resp"`
	Mode string     `json:"mode"`
	Exp  struct {
		OK   bool `json:"ok"`
		On   bool `json:"on"`
		Cnct bool `json:"cnct"`
		Snct bool `json:"snct"`
	} `json:"exp"`
	Compliant bool `json:"compliant"`
}

func runNegoCli(rep *Report, row *c14CliRow, seed int64) {
	a, peer := ws.Pipe()
	defer peer.Close()
	c, req, err := ws.ClientConn(a, &websocket.DialOptions{CompressionMode: modeOf(row.Mode), CompressionThreshold: 16}, extHeader(row.Resp))
	id := map[string]interface{}{"response": extHeader(row.Resp), "mode": row.Mode, "exp": row.Exp}
	if req != nil {
		id["offer"] = req.Header.Get("Sec-WebSocket-Extensions")
		// the client's own offer must match its mode
		on, cnct, snct, other := parseExt(req.Header.Get("Sec-WebSocket-Extensions"))
		if on != (row.Mode != "off") || cnct != (row.Mode == "nct") || snct != (row.Mode == "nct") || len(other) > 0 {
			rep.miss("nego-client-offer-wrong-for-mode", id, "")
		}
	}
	if c != nil {
		defer c.CloseNow()
	}
	if !row.Exp.OK {
		if c != nil || err == nil {
			rep.miss("nego-client-accepted-response-it-cannot-honour", id, "")
		}
		return
	}
	if !row.Compliant {
		return // non-compliant server: outside the statement
	}
	if c == nil || err != nil {
		rep.miss("nego-client-rejected-valid-response", id, fmt.Sprint(err))
		return
	}
	if row.Exp.On {
		if err := exchange(c, peer, true, row.Exp.Cnct, row.Exp.Snct, seed); err != nil {
			rep.miss("nego-exchange-failed-under-agreed-parameters", id, err.Error())
		}
	} else if err := exchangePlain(c, peer, true, seed); err != nil {
		rep.miss("nego-compression-used-without-agreement", id, err.Error())
	}
}

// ---- family: dialresp (C13) ----

type c13Row struct {
	Resp struct {
		Status int        `json:"status"`
		Conn   [][]string `json:"conn"`
		Upg    [][]string `json:"upg"`
		Accept string     `json:"accept"`
		Sub    string     `json:"sub"`
		Ext    []extEntry `json:"ext"`
	} `json:"resp"`
	Requested []string `json:"requested"`
	Mode      string   `json:"mode"`
	Exp       string   `json:"exp"`
}

type rtf func(*http.Request) (*http.Response, error)

func (f rtf) RoundTrip(r *http.Request) (*http.Response, error) { return f(r) }

func swapCase(s string) string {
	b := []byte(s)
	for i, c := range b {
		switch {
		case c >= 'a' && c <= 'z':
			b[i] = c - 32
		case c >= 'A' && c <= 'Z':
			b[i] = c + 32
		}
	}
	return string(b)
}

func runDialRow(rep *Report, row *c13Row) {
	a, peer := ws.Pipe()
	defer peer.Close()
	// Dial reads up to 1 KiB of a rejected response's body under a 3 s timer: make the body end at once
	peer.Out.CloseWrite(nil)
	var sentKey string
	client := &http.Client{Transport: rtf(func(r *http.Request) (*http.Response, error) {
		sentKey = r.Header.Get("Sec-WebSocket-Key")
		h := http.Header{}
		for _, l := range row.Resp.Conn {
			h.Add("Connection", strings.Join(l, ", "))
		}
		for _, l := range row.Resp.Upg {
			h.Add("Upgrade", strings.Join(l, ", "))
		}
		switch row.Resp.Accept {
		case "correct":
			h.Set("Sec-WebSocket-Accept", ws.AcceptKey(sentKey))
		case "otherkey":
			h.Set("Sec-WebSocket-Accept", ws.AcceptKey(goodKey))
		case "casechanged":
			h.Set("Sec-WebSocket-Accept", swapCase(ws.AcceptKey(sentKey)))
		case "samebytes":
			h.Set("Sec-WebSocket-Accept", sameBytes(ws.AcceptKey(sentKey)))
		case "nopad":
			h.Set("Sec-WebSocket-Accept", strings.TrimRight(ws.AcceptKey(sentKey), "="))
		case "twolines":
			h.Add("Sec-WebSocket-Accept", ws.AcceptKey(goodKey))
			h.Add("Sec-WebSocket-Accept", ws.AcceptKey(sentKey))
		}
		if row.Resp.Sub == "b|a" { // two header lines: the first one is the selection
			h.Add("Sec-WebSocket-Protocol", "b")
			h.Add("Sec-WebSocket-Protocol", "a")
		} else if row.Resp.Sub != "" {
			h.Set("Sec-WebSocket-Protocol", row.Resp.Sub)
		}
		if len(row.Resp.Ext) > 0 {
			h.Set("Sec-WebSocket-Extensions", extHeader(row.Resp.Ext))
		}
		var body io.ReadCloser = a
		if row.Resp.Status != 101 {
			body = io.NopCloser(bytes.NewReader(nil))
		}
		return &http.Response{StatusCode: row.Resp.Status, Header: h, Body: body, Proto: "HTTP/1.1", ProtoMajor: 1, ProtoMinor: 1, Request: r}, nil
	})}
	c, _, err := websocket.Dial(context.Background(), "ws://example.com/x", &websocket.DialOptions{HTTPClient: client, Subprotocols: row.Requested, CompressionMode: modeOf(row.Mode)})
	if c != nil {
		defer c.CloseNow()
	}
	if (c != nil) == (err != nil) {
		rep.miss("dial-conn-and-error-inconsistent", row, fmt.Sprint(err))
		return
	}
	switch row.Exp {
	case "accept":
		if c == nil {
			rep.miss("dial-rejected-valid-response", row, fmt.Sprint(err))
		} else if want := strings.Split(row.Resp.Sub, "|")[0]; c.Subprotocol() != want {
			rep.miss("dial-subprotocol-not-reported", row, c.Subprotocol())
		}
	case "reject":
		if c != nil {
			rep.miss("dial-accepted-invalid-response", row, "")
		}
	}
}

// request side of Dial: what the library sends for each DialOptions combination
type dialReqCase struct {
	Override string   `json:"override"` // header the caller tries to override
	Host     string   `json:"host"`
	Subs     []string `json:"subs"`
	Mode     string   `json:"mode"`
}

func runDialReq(rep *Report, dc dialReqCase, keys map[string]bool) {
	hdr := http.Header{}
	hdr.Set("X-Custom", "kept")
	hdr.Add("Cookie", "a=b")
	switch dc.Override {
	case "upgrade":
		hdr.Set("Upgrade", "h2c")
	case "connection":
		hdr.Set("Connection", "close")
	case "key":
		hdr.Set("Sec-WebSocket-Key", "AAAAAAAAAAAAAAAAAAAAAA==")
	case "version":
		hdr.Set("Sec-WebSocket-Version", "8")
	}
	a, peer := ws.Pipe()
	defer peer.Close()
	c, req, err := ws.ClientConn(a, &websocket.DialOptions{HTTPHeader: hdr, Host: dc.Host, Subprotocols: dc.Subs, CompressionMode: modeOf(dc.Mode)}, "")
	if c != nil {
		defer c.CloseNow()
	}
	if err != nil || req == nil {
		rep.miss("dial-request-failed", dc, fmt.Sprint(err))
		return
	}
	bad := func(what string) { rep.miss("dial-request-malformed", dc, what) }
	if req.Method != "GET" {
		bad("method " + req.Method)
	}
	if !strings.EqualFold(req.Header.Get("Connection"), "upgrade") || len(req.Header.Values("Connection")) != 1 {
		bad("Connection " + fmt.Sprint(req.Header.Values("Connection")))
	}
	if !strings.EqualFold(req.Header.Get("Upgrade"), "websocket") || len(req.Header.Values("Upgrade")) != 1 {
		bad("Upgrade " + fmt.Sprint(req.Header.Values("Upgrade")))
	}
	if v := req.Header.Values("Sec-WebSocket-Version"); len(v) != 1 || v[0] != "13" {
		bad("version " + fmt.Sprint(v))
	}
	k := req.Header.Values("Sec-WebSocket-Key")
	if len(k) != 1 {
		bad("key count")
	} else {
		raw, err := base64.StdEncoding.DecodeString(k[0])
		if err != nil || len(raw) != 16 {
			bad("key not 16 bytes")
		}
		if keys[k[0]] || k[0] == "AAAAAAAAAAAAAAAAAAAAAA==" {
			rep.miss("dial-key-not-fresh", dc, k[0])
		}
		keys[k[0]] = true
	}
	wantSub := strings.Join(dc.Subs, ",")
	gotSub := strings.ReplaceAll(strings.Join(req.Header.Values("Sec-WebSocket-Protocol"), ","), " ", "")
	if gotSub != wantSub {
		bad("subprotocols " + gotSub)
	}
	on, cnct, snct, other := parseExt(req.Header.Get("Sec-WebSocket-Extensions"))
	if on != (dc.Mode != "off") || cnct != (dc.Mode == "nct") || snct != (dc.Mode == "nct") || len(other) > 0 {
		bad("extension offer " + req.Header.Get("Sec-WebSocket-Extensions"))
	}
	if req.Header.Get("X-Custom") != "kept" || req.Header.Get("Cookie") != "a=b" {
		bad("caller headers lost")
	}
	wantHost := "example.com"
	if dc.Host != "" {
		wantHost = dc.Host
	}
	gotHost := req.Host
	if gotHost == "" {
		gotHost = req.URL.Host
	}
	if gotHost != wantHost {
		bad("host " + gotHost)
	}
}

func init() {
	runTable := func(name string, each func(rep *Report, b []byte, seed int64) error, post func(rep *Report)) func([]string) error {
		return func(args []string) error {
			fs := flag.NewFlagSet(name, flag.ExitOnError)
			rowsPath := fs.String("rows", "", "rows")
			rows2 := fs.String("rows2", "", "second table")
			seed := fs.Int64("seed", 1, "seed")
			fs.Parse(args)
			rep := newReport(name)
			var evals, rows int64
			jobs := make(chan func(*rand.Rand), 256)
			done := make(chan struct{})
			go func() { parallel(runtime.GOMAXPROCS(0), jobs, *seed); close(done) }()
			var ferr error
			for _, p := range []string{*rowsPath, *rows2} {
				if p == "" {
					continue
				}
				err := readNDJSON(p, func(b []byte) error {
					rows++
					jobs <- func(*rand.Rand) {
						if err := each(rep, b, *seed); err != nil {
							rep.miss("row-unreadable", string(b[:min(len(b), 200)]), err.Error())
						}
						atomic.AddInt64(&evals, 1)
					}
					return nil
				})
				if err != nil {
					ferr = err
				}
			}
			close(jobs)
			<-done
			if ferr != nil {
				return ferr
			}
			rep.Evaluations, rep.Rows, rep.Distinct = evals, rows, rows
			if post != nil {
				post(rep)
			}
			rep.print()
			return nil
		}
	}
	families["accept"] = runTable("accept", func(rep *Report, b []byte, seed int64) error {
		var row c11Row
		if err := json.Unmarshal(b, &row); err != nil {
			return err
		}
		runAcceptRow(rep, &row)
		if len(row.Req.Conn) == 2 {
			rep.sample(row)
		}
		return nil
	}, func(rep *Report) { rep.Extra["rows_refused_by_net_http_parser"] = acceptUnparsable })
	families["origin"] = runTable("origin", func(rep *Report, b []byte, seed int64) error {
		var row originRow
		if err := json.Unmarshal(b, &row); err != nil {
			return err
		}
		runOriginRow(rep, &row)
		if row.O.Userinfo == "REQHOST" {
			rep.sample(row)
		}
		return nil
	}, func(rep *Report) {
		rep.Extra["open_rows_refused"] = originOpenRefused
		rep.Extra["open_rows_accepted"] = originOpenAccepted
	})
	families["dialresp"] = runTable("dialresp", func(rep *Report, b []byte, seed int64) error {
		var row c13Row
		if err := json.Unmarshal(b, &row); err != nil {
			return err
		}
		runDialRow(rep, &row)
		if row.Resp.Sub != "" && len(row.Resp.Ext) > 0 {
			rep.sample(row)
		}
		return nil
	}, func(rep *Report) {
		// request side: every DialOptions combination, key freshness over all of them
		keys := map[string]bool{}
		n := 0
		for _, ov := range []string{"none", "upgrade", "connection", "key", "version"} {
			for _, host := range []string{"", "override.example.org:8443"} {
				for _, subs := range [][]string{nil, {"a"}, {"a", "b"}} {
					for _, m := range []string{"off", "ct", "nct"} {
						runDialReq(rep, dialReqCase{Override: ov, Host: host, Subs: subs, Mode: m}, keys)
						n++
					}
				}
			}
		}
		// the caller's header map is the caller's: reused across dials it must stay as given and must not carry offers over
		shared := http.Header{}
		shared.Set("X-Custom", "kept")
		for i, dc := range []dialReqCase{{Subs: []string{"chat", "v2"}, Mode: "nct"}, {Mode: "off"}, {Subs: []string{"a"}, Mode: "ct"}, {Mode: "off", Host: "h.example"}} {
			before := shared.Clone()
			a, peer := ws.Pipe()
			c, req, err := ws.ClientConn(a, &websocket.DialOptions{HTTPHeader: shared, Host: dc.Host, Subprotocols: dc.Subs, CompressionMode: modeOf(dc.Mode)}, "")
			if c != nil {
				c.CloseNow()
			}
			peer.Close()
			n++
			id := map[string]interface{}{"dial": i, "opts": dc}
			if err != nil || req == nil {
				rep.miss("dial-request-failed", id, fmt.Sprint(err))
				continue
			}
			if !reflect.DeepEqual(map[string][]string(shared), map[string][]string(before)) {
				rep.miss("dial-modified-callers-header-map", id, fmt.Sprint(shared))
			}
			gotSub := strings.ReplaceAll(strings.Join(req.Header.Values("Sec-WebSocket-Protocol"), ","), " ", "")
			on, _, _, _ := parseExt(req.Header.Get("Sec-WebSocket-Extensions"))
			if gotSub != strings.Join(dc.Subs, ",") || on != (dc.Mode != "off") {
				rep.miss("dial-request-carries-offers-of-an-earlier-dial", id, fmt.Sprintf("subprotocols %q extensions %q", gotSub, req.Header.Get("Sec-WebSocket-Extensions")))
			}
		}
		rep.Evaluations += int64(n)
		rep.Extra["dial_requests_inspected"] = n
		rep.Extra["distinct_keys"] = len(keys)
	})
	families["nego"] = runTable("nego", func(rep *Report, b []byte, seed int64) error {
		if bytes.Contains(b, []byte(`"offers"`)) {
			var row c14SrvRow
			if err := json.Unmarshal(b, &row); err != nil {
				return err
			}
			runNegoSrv(rep, &row, seed, false)
			if len(row.Offers) > 1 {
				runNegoSrv(rep, &row, seed, true)
				rep.sample(row)
			}
			return nil
		}
		var row c14CliRow
		if err := json.Unmarshal(b, &row); err != nil {
			return err
		}
		runNegoCli(rep, &row, seed)
		return nil
	}, nil)
}

func min(a, b int) int {
	if a < b {
		return a
	}
	return b
}
