package main

import (
	"context"
	"encoding/json"
	"flag"
	"fmt"
	"net"
	"runtime"
	"strings"
	"sync"
	"time"

	"nhooyr.io/websocket"
	"verifharness/ws"
)

// ---- family: life (C20) ----
// Histories enumerated by TLC from spec/WSLife.tla are run one connection at a time; when the closing call
// has returned, the goroutines the library created ("created by nhooyr.io/websocket...") are counted from a
// full goroutine dump.  The specification says: none is left, whatever the history and whatever ended the
// connection.  Rows whose history makes the library close asynchronously, or close from two sides at once, are
// also run over a transport whose Close() stalls, so that a closer that is not waited for is still there to see.

type lifeRow struct {
	Steps []string `json:"steps"`
	End   string   `json:"end"`
	Exp   struct {
		Goroutines int  `json:"goroutines"`
		Open       bool `json:"open"`
	} `json:"exp"`
}

type lifeCase struct {
	Row    lifeRow `json:"row"`
	Client bool    `json:"client"`
	Stall  int     `json:"stall_ms"` // the transport's Close() takes this long
	K      int     `json:"k"`
	// Stretch: whoever logs this hook event on the connection is held there for StretchUS microseconds (ws.Stretch): the history
	// and its ending are the row's, the moment the teardown steps meet each other is widened
	Stretch   string `json:"stretch,omitempty"`
	StretchUS int    `json:"stretch_us,omitempty"`
}

var lifeStretchPoints = []string{"CloseEnter", "ClosedPre", "ClosedPost", "CasClosingOK", "WgCloseMu", "RwcClosed", "CrStart", "LockFailCtx", "WgBegin", "CloseRcvd"}

const lifeGrace = 150 * time.Millisecond

// libCreated returns the goroutines whose creator is library code, as short descriptions.
func libCreated() []string {
	buf := make([]byte, 1<<20)
	buf = buf[:runtime.Stack(buf, true)]
	var out []string
	for _, blk := range strings.Split(string(buf), "\n\n") {
		i := strings.LastIndex(blk, "created by ")
		if i < 0 || !strings.HasPrefix(blk[i+len("created by "):], "nhooyr.io/websocket") {
			continue
		}
		creator := strings.SplitN(blk[i+len("created by "):], " ", 2)[0]
		var top string
		for _, l := range strings.Split(blk, "\n")[1:] {
			if !strings.HasPrefix(l, "\t") && !strings.HasPrefix(l, "created by") {
				if j := strings.LastIndex(l, "("); j > 0 {
					l = l[:j]
				}
				if top == "" {
					top = l
				}
				if strings.HasPrefix(l, "nhooyr.io/websocket") {
					top = top + " < " + l
					break
				}
			}
		}
		state := ""
		if a, b := strings.Index(blk, "["), strings.Index(blk, "]"); a >= 0 && b > a {
			state = blk[a : b+1]
		}
		out = append(out, state+" "+strings.TrimPrefix(creator, "nhooyr.io/websocket")+": "+top)
	}
	return out
}

func runLife(rep *Report, lc lifeCase) {
	if g := libCreated(); len(g) != 0 {
		// left over from an earlier row of this process (reported there); wait them out so that this row starts clean
		for i := 0; i < 400 && len(libCreated()) != 0; i++ {
			time.Sleep(10 * time.Millisecond)
		}
	}
	a, b := ws.Pipe()
	if lc.Stall > 0 {
		a.OnClose = func() { time.Sleep(time.Duration(lc.Stall) * time.Millisecond) }
	}
	var tr interface {
		net.Conn
	} = a
	stalled := strings.HasPrefix(lc.Row.End, "stalled")
	if stalled {
		// a transport that lets go of pending I/O only 500 ms after Close; the peer will stop reading
		tr = &stuckEnd{End: a, hold: 500 * time.Millisecond}
	}
	var c *websocket.Conn
	var err error
	if lc.Client {
		c, _, err = ws.ClientConn(tr, &websocket.DialOptions{}, "")
	} else {
		c, _, err = ws.ServerConn(tr, &websocket.AcceptOptions{}, "")
	}
	if err != nil {
		rep.miss("handshake", lc, err.Error())
		return
	}
	if lc.Stretch != "" {
		ws.Stretch(c, lc.Stretch, time.Duration(lc.StretchUS)*time.Microsecond)
		defer ws.Unstretch(c)
	}
	raw := b
	// ---- raw peer: answers pings (unless told to withhold) and echoes the first Close frame ----
	var pmu sync.Mutex
	withhold := false
	echoed := false
	stopReading := make(chan struct{})
	var crCancel context.CancelFunc
	send := func(f ws.Frame) {
		f.Masked = !lc.Client
		f.Key = [4]byte{3, 1, 4, 1}
		pmu.Lock()
		raw.Out.Write(f.Encode())
		pmu.Unlock()
	}
	peerDone := make(chan struct{})
	peerQuit := make(chan struct{})
	var quitOnce sync.Once
	endPeer := func() {
		quitOnce.Do(func() { close(peerQuit) })
		raw.Close()
		<-peerDone
	}
	go func() {
		defer close(peerDone)
		var acc []byte
		tmp := make([]byte, 4096)
		for {
			select {
			case <-stopReading:
				<-peerQuit
				return
			default:
			}
			n, err := raw.In.Read(tmp)
			acc = append(acc, tmp[:n]...)
			for {
				f, k, e := ws.DecodeFrame(acc)
				if e != nil {
					break
				}
				acc = acc[k:]
				switch f.Op {
				case ws.OpPing:
					pmu.Lock()
					w := withhold
					pmu.Unlock()
					if !w {
						send(ws.Frame{Fin: true, Op: ws.OpPong, Payload: f.Payload})
					}
				case ws.OpClose:
					pmu.Lock()
					e := echoed
					echoed = true
					pmu.Unlock()
					if !e {
						send(ws.Frame{Fin: true, Op: ws.OpClose, Payload: f.Payload})
					}
				}
			}
			if err != nil {
				return
			}
		}
	}()
	bg := context.Background()
	short := func() (context.Context, context.CancelFunc) { return context.WithTimeout(bg, 30*time.Millisecond) }
	long := func() (context.Context, context.CancelFunc) { return context.WithTimeout(bg, 3*time.Second) }
	var crCtx context.Context
	reader := "free"
	fail := func(i int, op string, err error) {
		rep.miss("life-history-step-failed", lc, fmt.Sprintf("step %d %s: %v", i, op, err))
	}
	ok := true
	for i, op := range lc.Row.Steps {
		if !ok {
			break
		}
		switch op {
		case "read":
			send(ws.Frame{Fin: true, Op: ws.OpText, Payload: []byte(fmt.Sprintf("hello-%d", i))})
			ctx, cancel := long()
			_, _, err := c.Read(ctx)
			cancel()
			if err != nil {
				fail(i, op, err)
				ok = false
			}
		case "netconnRead":
			nc := websocket.NetConn(bg, c, websocket.MessageBinary)
			send(ws.Frame{Fin: true, Op: ws.OpBin, Payload: []byte("stream-bytes")})
			nc.SetReadDeadline(time.Now().Add(3 * time.Second))
			if _, err := nc.Read(make([]byte, 64)); err != nil { // the whole message: the adapter is left between messages
				fail(i, op, err)
				ok = false
			}
			nc.SetReadDeadline(time.Time{})
		case "netconnWrite":
			nc := websocket.NetConn(bg, c, websocket.MessageBinary)
			if _, err := nc.Write([]byte("written through the adapter")); err != nil {
				fail(i, op, err)
				ok = false
			}
		case "write":
			ctx, cancel := long()
			err := c.Write(ctx, websocket.MessageText, []byte(strings.Repeat("w", 100)))
			cancel()
			if err != nil {
				fail(i, op, err)
				ok = false
			}
		case "writer2":
			ctx, cancel := long()
			w, err := c.Writer(ctx, websocket.MessageBinary)
			if err == nil {
				_, err = w.Write([]byte("first chunk"))
			}
			if err == nil {
				_, err = w.Write([]byte("second chunk"))
			}
			if err == nil {
				err = w.Close()
			}
			cancel()
			if err != nil {
				fail(i, op, err)
				ok = false
			}
		case "ping":
			ctx, cancel := long()
			err := c.Ping(ctx)
			cancel()
			if err != nil {
				fail(i, op, err)
				ok = false
			}
		case "closeread":
			var pctx context.Context
			pctx, crCancel = context.WithCancel(bg)
			defer crCancel()
			crCtx = c.CloseRead(pctx)
			reader = "closeread"
		case "abandonReader":
			send(ws.Frame{Fin: true, Op: ws.OpBin, Payload: []byte(strings.Repeat("r", 300))})
			ctx, cancel := long()
			_, r, err := c.Reader(ctx)
			if err == nil {
				_, err = r.Read(make([]byte, 7))
			}
			cancel()
			if err != nil {
				fail(i, op, err)
				ok = false
			}
			reader = "abandoned"
		case "abandonWriter":
			ctx, cancel := long()
			w, err := c.Writer(ctx, websocket.MessageText)
			if err == nil {
				_, err = w.Write([]byte("never finished"))
			}
			cancel()
			if err != nil {
				fail(i, op, err)
				ok = false
			}
		case "lockExpire":
			ctx, cancel := short()
			err := c.Write(ctx, websocket.MessageText, []byte("queued behind the abandoned writer"))
			cancel()
			if err == nil {
				fail(i, op, fmt.Errorf("Write succeeded although the message lock is held by an abandoned Writer"))
				ok = false
			}
		case "readExpire":
			ctx, cancel := short()
			_, _, err := c.Read(ctx)
			cancel()
			if err == nil {
				fail(i, op, fmt.Errorf("Read succeeded with nothing to read"))
				ok = false
			}
		case "pingExpire":
			pmu.Lock()
			withhold = true
			pmu.Unlock()
			ctx, cancel := short()
			err := c.Ping(ctx)
			cancel()
			if err == nil {
				fail(i, op, fmt.Errorf("Ping succeeded although its pong was withheld"))
				ok = false
			}
		}
	}
	if !ok {
		c.CloseNow()
		endPeer()
		return
	}
	// ---- ending the connection ----
	end := lc.Row.End
	pre, call := end, end
	if i := strings.Index(end, "+"); i >= 0 {
		pre, call = end[:i], end[i+1:]
	} else {
		pre = ""
	}
	appRead := func() {
		switch reader {
		case "free":
			ctx, cancel := long()
			c.Read(ctx)
			cancel()
		case "closeread":
			select {
			case <-crCtx.Done():
			case <-time.After(3 * time.Second):
			}
		}
	}
	switch pre {
	case "stalledPong", "stalledPolicyClose":
		a.Out.Cap = 8 // from now on the library's writes block after 8 bytes: the peer has stopped reading
		close(stopReading)
		time.Sleep(5 * time.Millisecond)
		if pre == "stalledPong" {
			send(ws.Frame{Fin: true, Op: ws.OpPing, Payload: []byte(strings.Repeat("p", 120))})
		} else {
			send(ws.Frame{Fin: true, Op: ws.OpText, Payload: []byte("a data message the CloseRead policy forbids")})
		}
		time.Sleep(40 * time.Millisecond) // the CloseRead goroutine is now blocked writing the pong into the full transport
		crCancel()
		time.Sleep(20 * time.Millisecond)
		call = "closenow"
	case "peerclose":
		pmu.Lock()
		echoed = true
		pmu.Unlock()
		send(ws.Frame{Fin: true, Op: ws.OpClose, Payload: ws.ClosePayload(1000, "peer is done")})
		appRead()
	case "protoerr":
		send(ws.Frame{Fin: true, Rsv2: true, Op: ws.OpText, Payload: []byte("rsv2")})
		appRead()
	case "transportfail":
		raw.Close()
		appRead()
	}
	var after func() // what still has to end before the connection is torn down (not part of the observation)
	done := make(chan struct{})
	go func() {
		defer close(done)
		switch call {
		case "close":
			c.Close(websocket.StatusNormalClosure, "")
		case "closenow":
			c.CloseNow()
		case "closenowThenClose", "closeThenClosenow":
			first, second := func() { c.CloseNow() }, func() { c.Close(websocket.StatusGoingAway, "second") }
			if call == "closeThenClosenow" {
				first, second = func() { c.Close(websocket.StatusGoingAway, "first") }, func() { c.CloseNow() }
			}
			go first()
			time.Sleep(15 * time.Millisecond)
			second()
		case "closeTwiceThenLockExpire":
			pmu.Lock()
			echoed = true // the peer does not answer the Close frame: the first Close stays in its handshake
			pmu.Unlock()
			first := make(chan struct{})
			go func() { defer close(first); c.Close(websocket.StatusNormalClosure, "first") }()
			time.Sleep(15 * time.Millisecond)
			second := make(chan struct{})
			go func() { defer close(second); c.Close(websocket.StatusNormalClosure, "second") }()
			time.Sleep(15 * time.Millisecond)
			ctx, cancel := short()
			c.Write(ctx, websocket.MessageText, []byte("queued behind the abandoned writer"))
			cancel()
			<-second
			after = func() { <-first }
		case "closeAndClosenow":
			var wg sync.WaitGroup
			wg.Add(2)
			go func() { defer wg.Done(); c.Close(websocket.StatusGoingAway, "both") }()
			go func() { defer wg.Done(); c.CloseNow() }()
			wg.Wait()
		}
	}()
	select {
	case <-done:
	case <-time.After(25 * time.Second):
		rep.miss("life-closing-call-pending", lc, "the closing call did not return within 25s; library goroutines: "+strings.Join(libCreated(), " || "))
		quitOnce.Do(func() { close(peerQuit) })
		raw.Close()
		c.CloseNow()
		<-peerDone
		return
	}
	// ---- the closing call has returned: which library goroutines are still there? ----
	// A goroutine that has signalled its end and is unwinding is given time (it shows as running or runnable); one that
	// is blocked somewhere when the grace period is over has outlived the call.
	var left []string
	t0 := time.Now()
	for {
		left = libCreated()
		if len(left) == 0 {
			break
		}
		el := time.Since(t0)
		blocked := false
		for _, g := range left {
			if !strings.HasPrefix(g, "[running]") && !strings.HasPrefix(g, "[runnable]") {
				blocked = true
			}
		}
		if el > lifeGrace && blocked || el > 2*time.Second {
			break
		}
		time.Sleep(3 * time.Millisecond)
	}
	if len(left) != lc.Row.Exp.Goroutines {
		rep.miss("library-goroutine-outlives-the-closing-call", lc, fmt.Sprintf("%d goroutine(s) created by the library still running %v after %s returned: %s",
			len(left), lifeGrace, call, strings.Join(left, " || ")))
	}
	if after != nil {
		after()
	}
	endPeer()
}

func init() {
	families["life"] = func(args []string) error {
		fs := flag.NewFlagSet("life", flag.ExitOnError)
		rowsPath := fs.String("rows", "", "rows written by TLC from spec/WSLifeRows.tla")
		shard := fs.Int("shard", 0, "this process runs rows k with k % of == shard")
		of := fs.Int("of", 1, "number of shards")
		stall := fs.Int("stall", 400, "milliseconds the stalling transport's Close takes")
		fs.Parse(args)
		rep := newReport("life")
		websocket.VerifSink = ws.StretchGate // no trace is recorded here: the hooks only serve as gates
		k := 0
		err := readNDJSON(*rowsPath, func(b []byte) error {
			var row lifeRow
			if err := json.Unmarshal(b, &row); err != nil {
				return err
			}
			rep.Rows++
			async := row.End == "closeTwiceThenLockExpire" || strings.HasPrefix(row.End, "stalled") || strings.Contains(row.End, "ose") && strings.Contains(row.End, "now") && !strings.Contains(row.End, "+") || strings.HasPrefix(row.End, "peerclose")
			for _, s := range row.Steps {
				if strings.HasSuffix(s, "Expire") || s == "closeread" {
					async = true
				}
			}
			for _, client := range []bool{false, true} {
				stalls := []int{0}
				if async {
					stalls = []int{0, *stall}
				}
				for _, st := range stalls {
					k++
					if k%*of != *shard {
						continue
					}
					lc := lifeCase{Row: row, Client: client, Stall: st, K: k}
					if h := uint32(k) * 2654435761; h%3 == 0 {
						lc.Stretch, lc.StretchUS = lifeStretchPoints[int(h>>8)%len(lifeStretchPoints)], 100+int(h>>16)%900
					}
					runLife(rep, lc)
					rep.Evaluations++
					if len(row.Steps) >= 2 && st > 0 {
						rep.sample(lc)
					}
				}
			}
			return nil
		})
		if err != nil {
			return err
		}
		rep.Distinct = rep.Rows
		rep.print()
		return nil
	}
}
