// wsdrive replays TLC-generated tables and behaviours into the real nhooyr/websocket
// implementation (built with -tags verif from /repo's working tree) and reports every
// discrepancy between the specification's prediction and the observed behaviour.
package main

import (
	"bufio"
	"encoding/json"
	"flag"
	"fmt"
	"io"
	"log"
	"os"
	"sort"
	"sync"
)

// Mismatch is one discrepancy between specification and implementation.
type Mismatch struct {
	Sig    string      `json:"sig"`  // stable signature used to match KNOWN_FINDINGS entries
	Case   interface{} `json:"case"` // the concrete case (row + variant) that reproduces it
	Detail string      `json:"detail"`
	Family string      `json:"family"`
}

// Report is what every driver prints as one JSON document on stdout.
type Report struct {
	Family      string                 `json:"family"`
	Evaluations int64                  `json:"evaluations"`
	Distinct    int64                  `json:"distinct"`
	Rows        int64                  `json:"rows"`
	Sigs        map[string]int         `json:"sigs"`
	Mismatches  []Mismatch             `json:"mismatches"`
	Samples     []interface{}          `json:"samples"`
	Extra       map[string]interface{} `json:"extra,omitempty"`
	mu          sync.Mutex
}

func newReport(f string) *Report {
	return &Report{Family: f, Sigs: map[string]int{}, Extra: map[string]interface{}{}}
}

func (r *Report) miss(sig string, c interface{}, detail string) {
	r.mu.Lock()
	r.Sigs[sig]++
	if r.Sigs[sig] <= 5 {
		r.Mismatches = append(r.Mismatches, Mismatch{Sig: sig, Case: c, Detail: detail, Family: r.Family})
	}
	r.mu.Unlock()
}

func (r *Report) sample(c interface{}) {
	r.mu.Lock()
	if len(r.Samples) < 3 {
		r.Samples = append(r.Samples, c)
	}
	r.mu.Unlock()
}

func (r *Report) print() {
	sort.Slice(r.Mismatches, func(i, j int) bool { return r.Mismatches[i].Sig < r.Mismatches[j].Sig })
	enc := json.NewEncoder(os.Stdout)
	enc.Encode(r)
}

// readNDJSON decodes every line of path into a fresh value produced by mk and passes it to fn.
func readNDJSON(path string, fn func(line []byte) error) error {
	f, err := os.Open(path)
	if err != nil {
		return err
	}
	defer f.Close()
	sc := bufio.NewScanner(f)
	sc.Buffer(make([]byte, 1<<20), 1<<28)
	for sc.Scan() {
		b := append([]byte(nil), sc.Bytes()...)
		if len(b) == 0 {
			continue
		}
		if err := fn(b); err != nil {
			return err
		}
	}
	return sc.Err()
}

var families = map[string]func(args []string) error{}

func main() {
	if len(os.Args) < 2 {
		fmt.Fprintln(os.Stderr, "usage: wsdrive <family> [flags]")
		os.Exit(2)
	}
	fn, ok := families[os.Args[1]]
	if !ok {
		fmt.Fprintln(os.Stderr, "unknown family", os.Args[1])
		os.Exit(2)
	}
	flag.CommandLine = flag.NewFlagSet(os.Args[1], flag.ExitOnError)
	log.SetOutput(io.Discard) // the library logs malformed origin patterns; thousands of rows would flood stderr
	if err := fn(os.Args[2:]); err != nil {
		fmt.Fprintln(os.Stderr, "wsdrive:", err)
		os.Exit(2)
	}
}
