package main

import (
	"encoding/binary"
	"encoding/json"
	"flag"
	"fmt"
	"math/rand"
	"runtime"
	"sync"
	"sync/atomic"
	"syscall"
	"unsafe"

	"nhooyr.io/websocket"
)

// ---- family: mask (C17) ----

type maskRow struct {
	N   int   `json:"n"`
	Ret []int `json:"ret"`
	Pat []int `json:"pat"`
}

type maskCase struct {
	Impl  string `json:"impl"`
	N     int    `json:"n"`
	Align int    `json:"align"`
	Rot   int    `json:"rot"`
	Split []int  `json:"split,omitempty"`
}

type maskFn func(b []byte, key uint32) uint32

func maskImpls() map[string]maskFn {
	m := map[string]maskFn{"go": websocket.VerifMaskGo, "mask": websocket.VerifMask}
	if runtime.GOARCH == "amd64" || runtime.GOARCH == "arm64" {
		m["asm"] = websocket.VerifMaskAsm
	}
	return m
}

const guard = 64

// arena returns a buffer of n bytes starting at the given alignment modulo 64, with guard bytes on both sides.
func arena(n, align int) (whole []byte, buf []byte) {
	whole = make([]byte, n+2*guard+128)
	base := uintptr(unsafe.Pointer(&whole[0]))
	off := int((64 - base%64) % 64)
	start := off + guard + align
	if start%64 != align {
		start += (align - start%64 + 64) % 64
	}
	for i := range whole {
		whole[i] = 0xA5
	}
	return whole, whole[start : start+n : start+n]
}

func checkMaskCase(rep *Report, fn maskFn, mc maskCase, row *maskRow, rng *rand.Rand) {
	var kb [4]byte
	base := [4]byte{0x11, 0x6e, 0xd3, 0x88}
	for j := 0; j < 4; j++ {
		kb[j] = base[(j+mc.Rot)%4]
	}
	key := binary.LittleEndian.Uint32(kb[:])
	whole, buf := arena(mc.N, mc.Align)
	in := make([]byte, mc.N)
	rng.Read(in)
	copy(buf, in)
	var ret uint32
	if len(mc.Split) == 0 {
		ret = fn(buf, key)
	} else {
		k := key
		pos := 0
		for _, s := range mc.Split {
			k = fn(buf[pos:pos+s], k)
			pos += s
		}
		ret = fn(buf[pos:], k)
	}
	// projection: which key byte was applied at each position
	for i := 0; i < mc.N; i++ {
		x := buf[i] ^ in[i]
		idx := -1
		for j := 0; j < 4; j++ {
			if kb[j] == x {
				idx = j
			}
		}
		want := i % 4
		if i < len(row.Pat) {
			want = row.Pat[i]
		}
		if idx != want {
			rep.miss("mask-wrong-key-byte", mc, fmt.Sprintf("position %d: applied key byte %d (xor %#x), reference %d", i, idx, x, want))
			return
		}
	}
	var rb [4]byte
	binary.LittleEndian.PutUint32(rb[:], ret)
	for j := 0; j < 4; j++ {
		if rb[j] != kb[(j+row.Ret[0])%4] {
			rep.miss("mask-returned-key-rotation", mc, fmt.Sprintf("returned %x for key %x after %d bytes", rb, kb, mc.N))
			return
		}
	}
	// guards
	if mc.N == 0 {
		for i := range whole {
			if whole[i] != 0xA5 {
				rep.miss("mask-wrote-outside-buffer", mc, "empty buffer, arena modified")
				return
			}
		}
		return
	}
	start := int(uintptr(unsafe.Pointer(&buf[0])) - uintptr(unsafe.Pointer(&whole[0])))
	for i := 0; i < len(whole); i++ {
		if (i < start || i >= start+mc.N) && whole[i] != 0xA5 {
			rep.miss("mask-wrote-outside-buffer", mc, fmt.Sprintf("byte at offset %d relative to buffer start modified", i-start))
			return
		}
	}
}

// pageGuard masks buffers that end exactly at the last byte before an unmapped page and that start
// right after one, so that an out-of-bounds READ faults.
func pageGuard(impls map[string]maskFn) error {
	ps := syscall.Getpagesize()
	mem, err := syscall.Mmap(-1, 0, 3*ps, syscall.PROT_READ|syscall.PROT_WRITE, syscall.MAP_ANON|syscall.MAP_PRIVATE)
	if err != nil {
		return err
	}
	if err := syscall.Mprotect(mem[:ps], syscall.PROT_NONE); err != nil {
		return err
	}
	if err := syscall.Mprotect(mem[2*ps:], syscall.PROT_NONE); err != nil {
		return err
	}
	mid := mem[ps : 2*ps]
	for _, fn := range impls {
		for n := 0; n <= 600; n++ {
			fn(mid[ps-n:], 0x01020304) // ends at the page end
			fn(mid[:n:n], 0x01020304)  // starts at the page start
		}
	}
	return nil
}

func init() {
	families["mask"] = func(args []string) error {
		fs := flag.NewFlagSet("mask", flag.ExitOnError)
		rowsPath := fs.String("rows", "", "rows")
		seed := fs.Int64("seed", 1, "seed")
		thorough := fs.Bool("thorough", false, "all four key rotations per cell, 3-way splits")
		pg := fs.Bool("pageguard", false, "only run the page-boundary placement test (faults on out-of-bounds access)")
		fs.Parse(args)
		impls := maskImpls()
		if *pg {
			if err := pageGuard(impls); err != nil {
				return err
			}
			fmt.Println(`{"family":"mask-pageguard","evaluations":1,"sigs":{}}`)
			return nil
		}
		rep := newReport("mask")
		var rows []maskRow
		if err := readNDJSON(*rowsPath, func(b []byte) error {
			var r maskRow
			if err := json.Unmarshal(b, &r); err != nil {
				return err
			}
			rows = append(rows, r)
			return nil
		}); err != nil {
			return err
		}
		var evals int64
		var wg sync.WaitGroup
		nw := runtime.GOMAXPROCS(0)
		for w := 0; w < nw; w++ {
			wg.Add(1)
			go func(w int) {
				defer wg.Done()
				rng := rand.New(rand.NewSource(*seed*100 + int64(w)))
				for ri := w; ri < len(rows); ri += nw {
					row := &rows[ri]
					for name, fn := range impls {
						for align := 0; align < 64; align++ {
							rots := []int{(row.N + align) % 4}
							if *thorough {
								rots = []int{0, 1, 2, 3}
							}
							for _, rot := range rots {
								mc := maskCase{Impl: name, N: row.N, Align: align, Rot: rot}
								checkMaskCase(rep, fn, mc, row, rng)
								atomic.AddInt64(&evals, 1)
							}
						}
						if row.N <= 300 {
							for a := 0; a <= row.N; a++ {
								mc := maskCase{Impl: name, N: row.N, Align: (a * 7) % 64, Rot: a % 4, Split: []int{a}}
								checkMaskCase(rep, fn, mc, row, rng)
								atomic.AddInt64(&evals, 1)
								if *thorough && row.N <= 64 {
									for b := 0; b <= row.N-a; b++ {
										mc := maskCase{Impl: name, N: row.N, Align: (b * 5) % 64, Rot: b % 4, Split: []int{a, b}}
										checkMaskCase(rep, fn, mc, row, rng)
										atomic.AddInt64(&evals, 1)
									}
								}
							}
						} else if row.N%97 == 0 {
							for t := 0; t < 20; t++ {
								a := rng.Intn(row.N + 1)
								b := rng.Intn(row.N - a + 1)
								mc := maskCase{Impl: name, N: row.N, Align: rng.Intn(64), Rot: t % 4, Split: []int{a, b}}
								checkMaskCase(rep, fn, mc, row, rng)
								atomic.AddInt64(&evals, 1)
							}
						}
					}
				}
			}(w)
		}
		wg.Wait()
		rep.Evaluations, rep.Rows, rep.Distinct = evals, int64(len(rows)), int64(len(rows))*64*int64(len(impls))
		var names []string
		for n := range impls {
			names = append(names, n)
		}
		rep.Extra["implementations"] = names
		rep.Samples = []interface{}{maskCase{Impl: "asm", N: 129, Align: 33, Rot: 2}, maskCase{Impl: "go", N: 300, Align: 7, Rot: 1, Split: []int{131}}}
		rep.print()
		return nil
	}
}
