package main

import (
	"context"
	"flag"
	"math/rand"
	"os"
	"sync"
	"time"

	"nhooyr.io/websocket"
	"verifharness/ws"
)

// ---- family: ncconc ----
// Concurrent executions of the NetConn adapter's deadline machinery for TraceDeadline.tla (binding C of C18): on a real
// client/server pair one side is wrapped in NetConn; one goroutine calls Read, one calls Write, a third sets read / write /
// both deadlines -- cleared, already passed, a few hundred microseconds ahead, an hour ahead -- at seeded moments, while the
// runtime's timer callbacks come in between.  The peer feeds and drains at a seeded pace so that calls are sometimes blocked
// when a deadline passes (active expiry: the connection is closed) and sometimes not (idle expiry: calls fail until the
// deadline is reset).  Nothing is judged here: the hook events of every (connection, direction) are written as one sub-trace
// and TLC decides whether each is a behaviour of spec/WSDeadline.tla.

type ncCfg struct {
	Seed   int64 `json:"seed"`
	Client bool  `json:"client"` // which side carries the adapter
	Calls  int   `json:"calls"`
	Sets   int   `json:"sets"`
	Pace   int   `json:"pace_us"` // the peer's pace
	NoFar  bool  `json:"nofar"`
}

func runNcConc(cfg ncCfg, rep *Report) {
	rng := rand.New(rand.NewSource(cfg.Seed))
	client, server, _, err := ws.Pair(nil, nil, nil, nil)
	if err != nil {
		return
	}
	c, peer := server, client
	if cfg.Client {
		c, peer = client, server
	}
	nc := websocket.NetConn(context.Background(), c, websocket.MessageBinary)
	stop := make(chan struct{})
	var wg sync.WaitGroup
	seeds := [5]int64{rng.Int63(), rng.Int63(), rng.Int63(), rng.Int63(), rng.Int63()}
	pause := func(r *rand.Rand, maxUS int) {
		if maxUS <= 0 {
			return
		}
		switch r.Intn(3) {
		case 0:
		case 1:
			for i := r.Intn(20); i > 0; i-- {
				time.Sleep(0) // yield
			}
		default:
			time.Sleep(time.Duration(r.Intn(maxUS)) * time.Microsecond)
		}
	}
	stopped := func() bool {
		select {
		case <-stop:
			return true
		default:
			return false
		}
	}
	// the peer: writes small messages and reads what the adapter writes, at its own pace
	pctx, pcancel := context.WithCancel(context.Background())
	wg.Add(2)
	go func() {
		defer wg.Done()
		r := rand.New(rand.NewSource(seeds[0]))
		for !stopped() {
			if peer.Write(pctx, websocket.MessageBinary, make([]byte, 1+r.Intn(40))) != nil {
				return
			}
			pause(r, cfg.Pace)
		}
	}()
	go func() {
		defer wg.Done()
		r := rand.New(rand.NewSource(seeds[1]))
		for !stopped() {
			if _, _, err := peer.Read(pctx); err != nil {
				return
			}
			pause(r, cfg.Pace)
		}
	}()
	// the application: one reader, one writer, one goroutine that sets deadlines
	var app sync.WaitGroup
	app.Add(3)
	go func() {
		defer app.Done()
		r := rand.New(rand.NewSource(seeds[2]))
		buf := make([]byte, 16)
		for i := 0; i < cfg.Calls && !stopped(); i++ {
			nc.Read(buf)
			pause(r, 300)
		}
	}()
	go func() {
		defer app.Done()
		r := rand.New(rand.NewSource(seeds[3]))
		for i := 0; i < cfg.Calls && !stopped(); i++ {
			nc.Write(make([]byte, 1+r.Intn(64)))
			pause(r, 300)
		}
	}()
	go func() {
		defer app.Done()
		r := rand.New(rand.NewSource(seeds[4]))
		for i := 0; i < cfg.Sets && !stopped(); i++ {
			var t time.Time
			switch k := r.Intn(7); {
			case k == 0:
			case k <= 2:
				t = time.Now().Add(-time.Second)
			case k <= 5 || cfg.NoFar:
				t = time.Now().Add(time.Duration(20+r.Intn(1500)) * time.Microsecond)
			default:
				t = time.Now().Add(time.Hour)
			}
			switch r.Intn(5) {
			case 0, 1:
				nc.SetReadDeadline(t)
			case 2, 3:
				nc.SetWriteDeadline(t)
			default:
				nc.SetDeadline(t)
			}
			pause(r, 900)
		}
	}()
	if !within(4*time.Second, app.Wait) {
		rep.miss("ncconc-application-calls-pending", cfg, "NetConn Read/Write/SetDeadline calls did not finish within 4 s:\n"+libStacks())
	}
	close(stop)
	pcancel()
	if !within(3*time.Second, func() { c.CloseNow(); peer.CloseNow() }) {
		rep.miss("closenow-did-not-return", cfg, "CloseNow after a NetConn execution did not return within 3 s:\n"+libStacks())
	}
	within(3*time.Second, wg.Wait)
}

func init() {
	families["ncconc"] = func(args []string) error {
		fs := flag.NewFlagSet("ncconc", flag.ExitOnError)
		n := fs.Int("n", 100, "executions")
		seed := fs.Int64("seed", 1, "seed")
		out := fs.String("trace", "", "sub-traces (one per connection and direction) for TraceDeadline")
		par := fs.Int("par", 6, "executions in flight")
		fs.Parse(args)
		rep := newReport("ncconc")
		tr := &ws.Tracer{Keep: func(e websocket.VerifEvent) bool {
			return len(e.Ev) > 2 && e.Ev[:2] == "Nc" || e.L == "nc" && (e.Ev == "ForceLock" || e.Ev == "UnlockPre")
		}}
		tr.Install()
		sem := make(chan struct{}, *par)
		var wg sync.WaitGroup
		for i := 0; i < *n; i++ {
			rng := rand.New(rand.NewSource(*seed*104729 + int64(i)))
			cfg := ncCfg{Seed: *seed*104729 + int64(i), Client: rng.Intn(2) == 0, Calls: 4 + rng.Intn(30), Sets: 2 + rng.Intn(25),
				Pace: []int{0, 100, 600, 3000}[rng.Intn(4)], NoFar: rng.Intn(2) == 0}
			sem <- struct{}{}
			wg.Add(1)
			go func() {
				defer wg.Done()
				defer func() { <-sem }()
				runNcConc(cfg, rep)
			}()
			rep.Evaluations++
			rep.sample(cfg)
		}
		wg.Wait()
		time.Sleep(30 * time.Millisecond) // callbacks that are still on their way
		evs := tr.Take()
		// partition: (connection, direction).  Lock events carry the lock's identity, NcNew says which lock is which direction.
		type key struct{ c, dir int64 }
		lockDir := map[[2]int64]int64{}
		sub := map[key][]websocket.VerifEvent{}
		var order []key
		var counts = map[string]int64{}
		for _, e := range evs {
			var dir int64
			switch e.Ev {
			case "NcNew":
				lockDir[[2]int64{e.Conn, e.A}] = 0
				lockDir[[2]int64{e.Conn, e.B}] = 1
				continue
			case "ForceLock", "UnlockPre":
				d, ok := lockDir[[2]int64{e.Conn, e.B}]
				if !ok {
					continue
				}
				dir = d
				e.B = 0 // TLC's integers are 32 bits wide; the identity has done its job
			case "NcSetBegin":
				// the time left until the deadline when SetDeadline began, in classes: 0 cleared, 1 already passed (the library
				// arms its timer with 1 ns), 3 more than 5 s ahead (cannot pass within an execution), 2 ahead and will pass
				dir = e.A
				switch {
				case e.B <= 1:
				case e.B > int64(5*time.Second):
					e.B = 3
				default:
					e.B = 2
				}
			case "NcSet":
				dir = e.A
				e.B = 0 // the class travels with NcSetBegin
			default:
				dir = e.A
			}
			k := key{e.Conn, dir}
			if _, ok := sub[k]; !ok {
				order = append(order, k)
			}
			sub[k] = append(sub[k], e)
			counts[e.Ev]++
		}
		rep.Distinct = int64(len(order))
		rep.Extra["deadline_events"] = counts
		if *out != "" {
			os.Remove(*out)
			var all []websocket.VerifEvent
			for _, k := range order {
				all = append(all, websocket.VerifEvent{Conn: k.c, Ev: "NcReset", A: k.dir})
				all = append(all, sub[k]...)
			}
			if err := ws.WriteNDJSON(*out, all); err != nil {
				return err
			}
		}
		rep.print()
		return nil
	}
}
