package main

import (
	"bytes"
	"context"
	"encoding/json"
	"errors"
	"flag"
	"fmt"
	"io"
	"math/rand"
	"runtime"
	"sync"
	"sync/atomic"
	"time"

	"nhooyr.io/websocket"
	"verifharness/ws"
)

// ---- family: netconn (C18) ----

type ncStep struct {
	Op  string `json:"op"`
	Obs string `json:"obs"`
	N   int    `json:"n"`
}
type ncRow struct {
	Steps []ncStep `json:"steps"`
}
type ncCase struct {
	Row    ncRow `json:"row"`
	Client bool  `json:"client"`
	Binary bool  `json:"binary"`
	Unit   int   `json:"unit"`
	NoWait bool  `json:"nowait"` // a deadline reset follows an idle expiry without giving the timer callback time to run
	// Immediate: the step after a deadline set in the past follows at once, before the adapter's timer goroutine can have run:
	// the deadline HAS passed while no call was active, so that next call fails with a deadline error and the connection stays usable
	Immediate bool `json:"immediate"`
}

type timerLog struct {
	mu sync.Mutex
	ev map[int64][]string
}

func (t *timerLog) add(conn int64, s string) {
	t.mu.Lock()
	t.ev[conn] = append(t.ev[conn], s)
	t.mu.Unlock()
}
func (t *timerLog) wait(conn int64, s string, d time.Duration) bool {
	deadline := time.Now().Add(d)
	for {
		t.mu.Lock()
		for i, e := range t.ev[conn] {
			if e == s {
				t.ev[conn] = append(t.ev[conn][:i], t.ev[conn][i+1:]...)
				t.mu.Unlock()
				return true
			}
		}
		t.mu.Unlock()
		if time.Now().After(deadline) {
			return false
		}
		time.Sleep(time.Millisecond)
	}
}

func runNetConn(rep *Report, nc ncCase, tl *timerLog, short *int64) {
	c, raw, err := ws.NewConn(nc.Client, "off", 0)
	if err != nil {
		rep.miss("handshake", nc, err.Error())
		return
	}
	defer c.CloseNow()
	defer raw.Close()
	id := websocket.VerifConnID(c)
	typ, other := websocket.MessageText, websocket.MessageBinary
	if nc.Binary {
		typ, other = other, typ
	}
	conn := websocket.NetConn(context.Background(), c, typ)
	peerMasks := !nc.Client
	send := func(f ws.Frame) {
		f.Masked = peerMasks
		f.Key = [4]byte{5, 4, 3, 2}
		raw.Out.Write(f.Encode())
	}
	var pauseDrain int32
	var gotMu sync.Mutex
	var got []ws.Frame
	go func() {
		var acc []byte
		tmp := make([]byte, 1<<16)
		for {
			for atomic.LoadInt32(&pauseDrain) == 1 && !raw.In.Closed() {
				time.Sleep(time.Millisecond)
			}
			n, err := raw.In.Read(tmp)
			acc = append(acc, tmp[:n]...)
			for {
				f, k, e := ws.DecodeFrame(acc)
				if e != nil {
					break
				}
				acc = acc[k:]
				gotMu.Lock()
				got = append(got, f)
				gotMu.Unlock()
				if f.Op == ws.OpClose {
					send(ws.Frame{Fin: true, Op: ws.OpClose, Payload: f.Payload})
				}
			}
			if err != nil {
				return
			}
		}
	}()
	u := nc.Unit
	var stream []byte // everything the peer sent with the right type, in order
	roff := 0
	var written [][]byte
	sendSeq := 0
	mk := func(n int) []byte { sendSeq++; return prf(int64(sendSeq), sendSeq, n) }
	for si, st := range nc.Row.Steps {
		where := fmt.Sprintf("step %d %s", si, st.Op)
		switch st.Op {
		case "send1", "send0", "send3":
			n := map[string]int{"send1": 1, "send0": 0, "send3": 3}[st.Op] * u
			b := mk(n)
			stream = append(stream, b...)
			send(ws.Frame{Fin: true, Op: int(typ), Payload: b})
		case "sendWrong":
			// what the unwanted message says is the peer's business: text, zeros, bytes that are no UTF-8, arbitrary binary
			b := mk(u)
			switch (sendSeq + si + u) % 4 {
			case 1:
				for i := range b {
					b[i] = 0
				}
			case 2:
				for i := range b {
					b[i] = 0x80 | b[i]
				}
			case 3:
				copy(b, []byte{0x1f, 0x8b, 0x08, 0x00, 0x00, 0x00, 0x00, 0x00, 0x00, 0xff, 0x01, 0x02, 0x03, 0x04, 0x05, 0x06, 0x07, 0x0b, 0x0e, 0x0f, 0x10, 0x11, 0x12, 0x13})
			}
			send(ws.Frame{Fin: true, Op: int(other), Payload: b})
		case "peerClose1000", "peerClose1001", "peerClose4000":
			code := map[string]int{"peerClose1000": 1000, "peerClose1001": 1001, "peerClose4000": 4000}[st.Op]
			send(ws.Frame{Fin: true, Op: ws.OpClose, Payload: ws.ClosePayload(code, "x")})
		case "read1", "read2", "read9":
			buf := make([]byte, map[string]int{"read1": 1, "read2": 2, "read9": 9}[st.Op]*u)
			done := make(chan struct{})
			var n int
			var rerr error
			go func() { n, rerr = conn.Read(buf); close(done) }()
			select {
			case <-done:
			case <-time.After(5 * time.Second):
				rep.miss("netconn-read-blocked", nc, where)
				return
			}
			switch st.Obs {
			case "data":
				if rerr != nil || n < 1 {
					rep.miss("netconn-read-failed-with-data-pending", nc, fmt.Sprintf("%s: n=%d err=%v", where, n, rerr))
					return
				}
				if roff+n > len(stream) || !bytes.Equal(buf[:n], stream[roff:roff+n]) {
					rep.miss("netconn-stream-bytes-differ", nc, fmt.Sprintf("%s: %d bytes at stream offset %d", where, n, roff))
					return
				}
				roff += n
				if n != st.N*u {
					atomic.AddInt64(short, 1) // a legal short read; the rest of the behaviour no longer applies
					return
				}
			case "eof":
				if rerr != io.EOF || n != 0 {
					rep.miss("netconn-close-not-mapped-to-EOF", nc, fmt.Sprintf("%s: n=%d err=%v", where, n, rerr))
					return
				}
			case "deadline":
				if !errors.Is(rerr, context.DeadlineExceeded) || n != 0 {
					rep.miss("netconn-expired-deadline-not-reported", nc, fmt.Sprintf("%s: n=%d err=%v", where, n, rerr))
					return
				}
			case "wrongtype":
				if rerr == nil || rerr == io.EOF {
					rep.miss("netconn-wrong-type-accepted", nc, fmt.Sprintf("%s: n=%d err=%v", where, n, rerr))
					return
				}
				ok := false
				for try := 0; try < 400 && !ok; try++ { // the frame is written before Read returns; the peer goroutine may lag
					gotMu.Lock()
					for _, f := range got {
						if f.Op == ws.OpClose && len(f.Payload) >= 2 && int(f.Payload[0])<<8|int(f.Payload[1]) == 1003 {
							ok = true
						}
					}
					gotMu.Unlock()
					if !ok {
						time.Sleep(5 * time.Millisecond)
					}
				}
				if !ok {
					rep.miss("netconn-wrong-type-without-1003", nc, where)
					return
				}
			case "error":
				if rerr == nil || rerr == io.EOF {
					rep.miss("netconn-read-should-fail", nc, fmt.Sprintf("%s: n=%d err=%v", where, n, rerr))
					return
				}
			}
		case "write0", "write2":
			p := mk(map[string]int{"write0": 0, "write2": 2}[st.Op] * u)
			var n int
			var werr error
			ro, lent, lerr := ws.Lend(p) // write-protected for the duration of the call
			if lerr != nil {
				rep.miss("harness-mmap-failed", nc, lerr.Error())
				return
			}
			if f := ws.WithFaults(func() { n, werr = conn.Write(lent) }); f != "" {
				rep.miss("caller-buffer-written-during-call", nc, fmt.Sprintf("%s: %s", where, f))
				ro.Release()
				return
			}
			ro.Release()
			switch st.Obs {
			case "ok":
				if werr != nil || n != len(p) {
					rep.miss("netconn-write-failed", nc, fmt.Sprintf("%s: n=%d err=%v", where, n, werr))
					return
				}
				written = append(written, p)
			case "deadline":
				if !errors.Is(werr, context.DeadlineExceeded) {
					rep.miss("netconn-expired-deadline-not-reported", nc, fmt.Sprintf("%s: err=%v", where, werr))
					return
				}
			case "error":
				if werr == nil {
					rep.miss("netconn-write-should-fail", nc, where)
					return
				}
			}
		case "rdlPast", "wdlPast":
			which, name := conn.SetReadDeadline, "NcTimerIdle0"
			if st.Op == "wdlPast" {
				which, name = conn.SetWriteDeadline, "NcTimerIdle1"
			}
			which(time.Now().Add(-time.Second))
			if nc.Immediate {
				continue
			}
			if nc.NoWait && si+1 < len(nc.Row.Steps) {
				// The expiry callback runs on its own goroutine.  When the application resets the deadline straight away the
				// callback may still be on its way; the reset must win whatever the order ("... until the deadline is reset").
				nx := nc.Row.Steps[si+1].Op
				if (st.Op == "rdlPast" && (nx == "rdlZero" || nx == "rdlFuture")) || (st.Op == "wdlPast" && nx == "wdlZero") {
					for i := 0; i < 40; i++ { // the same two calls again and again: each pair is another chance for a late callback
						if nx == "rdlFuture" {
							which(time.Now().Add(time.Hour))
						} else {
							which(time.Time{})
						}
						if i%4 == 3 {
							runtime.Gosched()
						}
						which(time.Now().Add(-time.Second))
					}
					continue
				}
			}
			// how the adapter notices the passed deadline is its business (a timer callback logs NcTimerIdle); what is
			// judged is only that it is NOT handled as an active call, and - by the following steps - that calls fail
			if !tl.wait(id, name, 100*time.Millisecond) && tl.wait(id, "NcTimerActive"+name[len(name)-1:], 0) {
				rep.miss("netconn-idle-deadline-treated-as-active", nc, where)
				return
			}
		case "rdlZero":
			conn.SetReadDeadline(time.Time{})
		case "rdlFuture":
			conn.SetReadDeadline(time.Now().Add(time.Hour))
		case "wdlZero":
			conn.SetWriteDeadline(time.Time{})
		case "readBlockedDeadline", "readBlockedSetPast":
			if st.Op == "readBlockedDeadline" {
				conn.SetReadDeadline(time.Now().Add(30 * time.Millisecond))
			}
			buf := make([]byte, 16)
			done := make(chan struct{})
			var rerr error
			go func() { _, rerr = conn.Read(buf); close(done) }()
			if st.Op == "readBlockedSetPast" {
				time.Sleep(20 * time.Millisecond) // the Read is blocked by now: no data is pending
				conn.SetReadDeadline(time.Now().Add(-time.Millisecond))
			}
			select {
			case <-done:
			case <-time.After(5 * time.Second):
				rep.miss("netconn-active-deadline-did-not-interrupt-call", nc, where)
				return
			}
			if rerr == nil || rerr == io.EOF {
				rep.miss("netconn-active-deadline-call-did-not-fail", nc, fmt.Sprintf("%s: %v", where, rerr))
				return
			}
			// what is judged is the effect: the call failed (above) and the connection ends up closed (below);
			// the hook only tells a lost race (timer before the call started = idle handling) from a defect
			if !tl.wait(id, "NcTimerActive0", 100*time.Millisecond) && tl.wait(id, "NcTimerIdle0", 0) {
				atomic.AddInt64(short, 1)
				return
			}
			if !tl.wait(id, "closed", 2*time.Second) {
				rep.miss("netconn-active-deadline-left-connection-open", nc, where)
				return
			}
		case "writeBlockedDeadline", "writeBlockedSetPast":
			atomic.StoreInt32(&pauseDrain, 1)
			raw.In.Cap = 1
			if st.Op == "writeBlockedDeadline" {
				conn.SetWriteDeadline(time.Now().Add(30 * time.Millisecond))
			}
			done := make(chan struct{})
			var werr error
			go func() { _, werr = conn.Write(make([]byte, 70000)); close(done) }()
			if st.Op == "writeBlockedSetPast" {
				time.Sleep(20 * time.Millisecond)
				conn.SetWriteDeadline(time.Now().Add(-time.Millisecond))
			}
			select {
			case <-done:
			case <-time.After(5 * time.Second):
				rep.miss("netconn-active-deadline-did-not-interrupt-call", nc, where)
				return
			}
			if werr == nil {
				rep.miss("netconn-active-deadline-call-did-not-fail", nc, where)
				return
			}
			// what is judged is the effect: the call failed (above) and the connection ends up closed (below);
			// the hook only tells a lost race (timer before the call started = idle handling) from a defect
			if !tl.wait(id, "NcTimerActive1", 100*time.Millisecond) && tl.wait(id, "NcTimerIdle1", 0) {
				atomic.AddInt64(short, 1)
				return
			}
			if !tl.wait(id, "closed", 2*time.Second) {
				rep.miss("netconn-active-deadline-left-connection-open", nc, where)
				return
			}
		}
	}
	// everything written arrived as one message of the adapter's type each, byte for byte
	if len(written) > 0 {
		raw.In.Cap = 0
		atomic.StoreInt32(&pauseDrain, 0)
		raw.In.Write(nil)
		deadline := time.Now().Add(2 * time.Second)
		for {
			gotMu.Lock()
			var msgs [][]byte
			okType := true
			for _, f := range got {
				if f.Op == ws.OpText || f.Op == ws.OpBin {
					if !f.Fin || f.Op != int(typ) {
						okType = false
					}
					msgs = append(msgs, f.Payload)
				}
			}
			gotMu.Unlock()
			if len(msgs) >= len(written) || time.Now().After(deadline) {
				if len(msgs) > len(written) {
					msgs = msgs[:len(written)] // a later write that was cut off by an active deadline may have left a complete frame
				}
				if len(msgs) != len(written) || !okType {
					rep.miss("netconn-written-messages-differ", nc, fmt.Sprintf("%d messages on the wire for %d writes (type ok: %v)", len(msgs), len(written), okType))
					return
				}
				for i := range msgs {
					if !bytes.Equal(msgs[i], written[i]) {
						rep.miss("netconn-written-messages-differ", nc, fmt.Sprintf("message %d", i))
						return
					}
				}
				break
			}
			time.Sleep(time.Millisecond)
		}
	}
}

func init() {
	families["netconn"] = func(args []string) error {
		fs := flag.NewFlagSet("netconn", flag.ExitOnError)
		rowsPath := fs.String("rows", "", "rows")
		seed := fs.Int64("seed", 1, "seed")
		stride := fs.Int("stride", 1, "use every stride-th row")
		units := fs.String("units", "1,4096", "unit sizes")
		fs.Parse(args)
		rep := newReport("netconn")
		tl := &timerLog{ev: map[int64][]string{}}
		websocket.VerifSink = func(e websocket.VerifEvent) {
			if e.Ev == "NcTimerIdle" || e.Ev == "NcTimerActive" {
				tl.add(e.Conn, fmt.Sprintf("%s%d", e.Ev, e.A))
			}
			if e.Ev == "ClosedPost" {
				tl.add(e.Conn, "closed")
			}
		}
		var evals, rows, short int64
		jobs := make(chan func(*rand.Rand), 64)
		done := make(chan struct{})
		go func() { parallel(48, jobs, *seed); close(done) }()
		k := 0
		err := readNDJSON(*rowsPath, func(b []byte) error {
			k++
			if (k+int(*seed))%*stride != 0 {
				return nil
			}
			var row ncRow
			if err := json.Unmarshal(b, &row); err != nil {
				return err
			}
			rows++
			for ui, us := range splitComma(*units) {
				var u int
				fmt.Sscan(us, &u)
				nc := ncCase{Row: row, Client: (k+ui)%2 == 0, Binary: (k/2+ui)%2 == 0, Unit: u, NoWait: ui%2 == 1}
				jobs <- func(*rand.Rand) {
					runNetConn(rep, nc, tl, &short)
					atomic.AddInt64(&evals, 1)
					if len(nc.Row.Steps) >= 4 {
						rep.sample(nc)
					}
				}
				hasPast := false
				for _, st := range row.Steps {
					hasPast = hasPast || st.Op == "rdlPast" || st.Op == "wdlPast"
				}
				if hasPast && ui == 0 {
					im := nc
					im.Immediate = true
					jobs <- func(*rand.Rand) {
						runNetConn(rep, im, tl, &short)
						atomic.AddInt64(&evals, 1)
					}
				}
			}
			return nil
		})
		close(jobs)
		<-done
		if err != nil {
			return err
		}
		rep.Extra["behaviours_not_reproduced(short_read_or_timer_race)"] = short
		rep.Evaluations, rep.Rows, rep.Distinct = evals, rows, rows
		rep.print()
		return nil
	}
}
