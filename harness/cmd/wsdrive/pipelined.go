package main

import (
	"bufio"
	"context"
	"flag"
	"fmt"
	"net"
	"net/http"
	"time"

	"nhooyr.io/websocket"
	"verifharness/ws"
)

// ---- family: pipelined (C11) ----
// Client frames sent in the same write as the upgrade request must reach the application:
// a real net/http server on loopback, a raw client.
func init() {
	families["pipelined"] = func(args []string) error {
		fs := flag.NewFlagSet("pipelined", flag.ExitOnError)
		seed := fs.Int64("seed", 1, "seed")
		fs.Parse(args)
		rep := newReport("pipelined")
		ln, err := net.Listen("tcp", "127.0.0.1:0")
		if err != nil {
			// no loopback in this sandbox: not a verdict
			rep.Extra["skipped"] = err.Error()
			rep.print()
			return nil
		}
		got := make(chan []string, 16)
		srv := &http.Server{Handler: http.HandlerFunc(func(w http.ResponseWriter, r *http.Request) {
			c, err := websocket.Accept(w, r, nil)
			if err != nil {
				got <- []string{"accept error: " + err.Error()}
				return
			}
			defer c.CloseNow()
			ctx, cancel := context.WithTimeout(context.Background(), 3*time.Second)
			defer cancel()
			var msgs []string
			for i := 0; i < 2; i++ {
				_, b, err := c.Read(ctx)
				if err != nil {
					msgs = append(msgs, "read error: "+err.Error())
					break
				}
				msgs = append(msgs, string(b))
			}
			got <- msgs
		})}
		go srv.Serve(ln)
		defer srv.Close()
		for k := 0; k < 20; k++ {
			conn, err := net.Dial("tcp", ln.Addr().String())
			if err != nil {
				return err
			}
			m1, m2 := fmt.Sprintf("first-%d-%d", *seed, k), string(prf(*seed, k, 200+k*37))
			req := "GET / HTTP/1.1\r\nHost: x\r\nConnection: Upgrade\r\nUpgrade: websocket\r\nSec-WebSocket-Version: 13\r\nSec-WebSocket-Key: " + goodKey + "\r\n\r\n"
			f1 := ws.Frame{Fin: true, Op: ws.OpText, Masked: true, Key: [4]byte{1, 2, 3, 4}, Payload: []byte(m1)}
			f2 := ws.Frame{Fin: true, Op: ws.OpBin, Masked: true, Key: [4]byte{5, 6, 7, 8}, Payload: []byte(m2)}
			conn.Write(append(append([]byte(req), f1.Encode()...), f2.Encode()...))
			br := bufio.NewReader(conn)
			resp, err := http.ReadResponse(br, nil)
			id := map[string]interface{}{"k": k}
			if err != nil || resp.StatusCode != 101 {
				rep.miss("pipelined-handshake-failed", id, fmt.Sprint(err))
				conn.Close()
				continue
			}
			if resp.Header.Get("Sec-WebSocket-Accept") != "s3pPLMBiTxaQ9kYGzzhZRbK+xOo=" {
				rep.miss("accept-key-wrong", id, resp.Header.Get("Sec-WebSocket-Accept"))
			}
			select {
			case msgs := <-got:
				if len(msgs) != 2 || msgs[0] != m1 || msgs[1] != m2 {
					rep.miss("pipelined-frames-lost", id, fmt.Sprintf("%.80q", msgs))
				}
			case <-time.After(5 * time.Second):
				rep.miss("pipelined-frames-lost", id, "handler did not report")
			}
			conn.Close()
			rep.Evaluations++
		}
		rep.Distinct = rep.Evaluations
		rep.Samples = []interface{}{"GET / upgrade request + 2 masked frames in one TCP write"}
		rep.print()
		return nil
	}
}
