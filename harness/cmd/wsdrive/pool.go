package main

import (
	"bytes"
	"compress/flate"
	"context"
	"flag"
	"fmt"
	"io"
	"math/rand"
	"os"
	"time"

	"nhooyr.io/websocket"
	"verifharness/ws"
)

// ---- family: pool (C07) ----
// Seeded programs over two or three concurrently open connections that share the library's
// pools.  Every payload is tagged with its connection, so every byte a read returns can be
// attributed; all pool events of all connections go to TracePool.tla in one global order.
// The program runs in ONE goroutine so that sync.Pool hands objects over deterministically.

type poolConn struct {
	c      *websocket.Conn
	raw    *ws.End
	client bool
	mode   string
	defl   *ws.Deflater
	tag    int
	r      io.Reader
	exp    []byte // plaintext of the message being read
	off    int
	atEOF  bool
	dead   bool
	nmsg   int
}

type poolStep struct {
	Conn int    `json:"conn"`
	Op   string `json:"op"`
}

type poolCase struct {
	Seed  int64      `json:"seed"`
	Steps []poolStep `json:"steps"`
	Modes []string   `json:"modes"`
}

func poolBody(tag, n, size int) []byte {
	unit := []byte(fmt.Sprintf("<conn-%d-msg-%d>", tag, n))
	var b []byte
	for len(b) < size {
		b = append(b, unit...)
	}
	return b
}

func newPoolConn(rng *rand.Rand, tag int) (*poolConn, error) {
	modes := []string{"ct", "nct", "c_nct", "s_nct"}
	pc := &poolConn{client: rng.Intn(2) == 0, mode: modes[rng.Intn(len(modes))], tag: tag}
	c, raw, err := ws.NewConn(pc.client, ws.Mode(pc.mode), 0)
	if err != nil {
		return nil, err
	}
	pc.c, pc.raw = c, raw
	c2s, s2c := ws.Mode(pc.mode).Takeover()
	tk := c2s
	if pc.client {
		tk = s2c
	}
	pc.defl = &ws.Deflater{Takeover: tk, Level: 1}
	return pc, nil
}

func (pc *poolConn) peerSend(f ws.Frame) {
	f.Masked = !pc.client
	f.Key = [4]byte{byte(pc.tag), 2, 3, 4}
	pc.raw.Out.Write(f.Encode())
}

var poolOps = []string{"start", "start", "readPart", "readPart", "readToEOF", "readToEOF", "readAgain", "readAgain", "startWhileOpen", "peerCloseMid", "closeNow", "ctxExpireMid", "newConn", "pingMid", "dictProbe", "dictProbe", "readWhole", "readWhole", "readWholeLimit", "readWholeCut"}

func runPoolCase(rep *Report, seed int64) poolCase {
	rng := rand.New(rand.NewSource(seed))
	pcase := poolCase{Seed: seed}
	nconn := 2 + rng.Intn(2)
	var conns []*poolConn
	tagSeq := 0
	for i := 0; i < nconn; i++ {
		tagSeq++
		pc, err := newPoolConn(rng, tagSeq)
		if err != nil {
			rep.miss("handshake", pcase, err.Error())
			return pcase
		}
		conns = append(conns, pc)
		pcase.Modes = append(pcase.Modes, pc.mode)
	}
	defer func() {
		for _, pc := range conns {
			pc.c.CloseNow()
			pc.raw.Close()
		}
	}()
	bg := context.Background()
	var cancels []context.CancelFunc
	defer func() {
		for _, c := range cancels {
			c()
		}
	}()
	buf := make([]byte, 300)
	// every slice a whole-message read handed to the application (with or without an error) is the application's: it is kept
	// and re-inspected after every later step on any connection (WSPool!ResultsArePrivate)
	type heldResult struct {
		got, want []byte
		tag       int
		how       string
	}
	var held []heldResult
	inspect := func(after string) {
		for i := range held {
			h := &held[i]
			if h.got != nil && !bytes.Equal(h.got, h.want) {
				rep.miss("bytes-returned-by-a-read-changed-afterwards", pcase, fmt.Sprintf("conn %d %s: returned %.40q, now %.40q (after %s)", h.tag, h.how, h.want, h.got, after))
				h.got = nil
			}
		}
	}
	check := func(pc *poolConn, n int, where string) bool {
		if n == 0 {
			return true
		}
		if pc.off+n > len(pc.exp) || !bytes.Equal(buf[:n], pc.exp[pc.off:pc.off+n]) {
			rep.miss("read-returned-bytes-not-sent-on-this-connection", pcase, fmt.Sprintf("conn %d %s: got %.50q, expected next bytes %.50q", pc.tag, where, buf[:n], pc.exp[min(pc.off, len(pc.exp)):min(pc.off+50, len(pc.exp))]))
			return false
		}
		pc.off += n
		return true
	}
	startMsg := func(pc *poolConn, complete bool) {
		pc.nmsg++
		pc.exp = poolBody(pc.tag, pc.nmsg, 700+rng.Intn(1500))
		z := pc.defl.Compress(pc.exp)
		h := len(z) / 2
		pc.peerSend(ws.Frame{Fin: false, Rsv1: true, Op: ws.OpBin, Payload: z[:h]})
		if complete {
			pc.peerSend(ws.Frame{Fin: true, Op: ws.OpCont, Payload: z[h:]})
		} else {
			_ = z
		}
		pc.off, pc.atEOF = 0, false
	}
	nsteps := 6 + rng.Intn(8)
	// every fourth program starts with the scripted hand-over: A reads to the end, B starts, A reads again
	script := []poolStep{}
	if seed%4 == 0 {
		script = []poolStep{{0, "start"}, {0, "readToEOF"}, {1, "start"}, {0, "readAgain"}, {1, "readPart"}, {0, "readAgain"}, {1, "readToEOF"}, {0, "start"}, {1, "readAgain"}, {0, "readToEOF"}}
		nsteps += len(script)
	}
	for s := 0; s < nsteps; s++ {
		ci := rng.Intn(len(conns))
		op := poolOps[rng.Intn(len(poolOps))]
		if s < len(script) {
			ci, op = script[s].Conn, script[s].Op
		}
		pc := conns[ci]
		if os.Getenv("POOL_DEBUG") != "" {
			fmt.Fprintf(os.Stderr, "step %d conn %d op %s dead=%v atEOF=%v r=%v\n", s, pc.tag, op, pc.dead, pc.atEOF, pc.r != nil)
		}
		pcase.Steps = append(pcase.Steps, poolStep{Conn: pc.tag, Op: op})
		if pc.dead && op != "newConn" {
			continue
		}
		// contexts bound the whole message (Reader keeps them), so they must outlive the step
		ctx, cancel := context.WithTimeout(bg, 20*time.Second)
		cancels = append(cancels, cancel)
		cancel = func() {}
		switch op {
		case "start":
			if pc.r != nil && !pc.atEOF {
				cancel()
				continue
			}
			startMsg(pc, true)
			_, r, err := pc.c.Reader(ctx)
			if err != nil {
				rep.miss("pool-reader-error", pcase, fmt.Sprintf("conn %d: %v", pc.tag, err))
				pc.dead = true
				cancel()
				continue
			}
			pc.r = r
		case "readPart":
			if pc.r == nil || pc.atEOF {
				cancel()
				continue
			}
			n, err := pc.r.Read(buf[:1+rng.Intn(200)])
			check(pc, n, "readPart")
			if err == io.EOF {
				pc.atEOF = true
			} else if err != nil {
				pc.dead = true
			}
		case "readToEOF":
			if pc.r == nil || pc.atEOF {
				cancel()
				continue
			}
			for {
				n, err := pc.r.Read(buf)
				if !check(pc, n, "readToEOF") {
					break
				}
				if err == io.EOF {
					pc.atEOF = true
					if pc.off != len(pc.exp) {
						rep.miss("message-ended-early", pcase, fmt.Sprintf("conn %d: %d of %d bytes", pc.tag, pc.off, len(pc.exp)))
					}
					break
				}
				if err != nil {
					if os.Getenv("POOL_DEBUG") != "" {
						fmt.Fprintf(os.Stderr, "   readToEOF error: %v (off %d of %d)\n", err, pc.off, len(pc.exp))
					}
					pc.dead = true
					break
				}
			}
		case "readAgain":
			// reading again after end-of-message must not yield anything
			if pc.r == nil || !pc.atEOF {
				cancel()
				continue
			}
			n, err := pc.r.Read(buf)
			if n > 0 {
				rep.miss("read-after-end-of-message-returned-bytes", pcase, fmt.Sprintf("conn %d: %.60q err=%v", pc.tag, buf[:n], err))
			}
		case "startWhileOpen":
			// a second Reader while a message is unfinished must fail, not disturb anything
			if pc.r == nil || pc.atEOF {
				cancel()
				continue
			}
			// if the final frame was already consumed the library waits for the next message: bound that wait
			sctx, scancel := context.WithTimeout(bg, 30*time.Millisecond)
			_, _, err := pc.c.Reader(sctx)
			scancel()
			if err == nil {
				rep.miss("second-reader-while-message-open", pcase, fmt.Sprintf("conn %d", pc.tag))
			}
			if sctx.Err() != nil {
				pc.dead = true // the expired context closed the connection, as documented
			}
		case "pingMid":
			pc.peerSend(ws.Frame{Fin: true, Op: ws.OpPing, Payload: []byte("p")})
		case "peerCloseMid":
			// peer's Close frame arrives in the middle of a compressed message
			if pc.r == nil || pc.atEOF {
				startMsg(pc, false)
				_, r, err := pc.c.Reader(ctx)
				if err != nil {
					pc.dead = true
					cancel()
					continue
				}
				pc.r = r
			}
			pc.peerSend(ws.Frame{Fin: true, Op: ws.OpClose, Payload: ws.ClosePayload(1000, "mid")})
			for {
				n, err := pc.r.Read(buf)
				if !check(pc, n, "peerCloseMid") || err != nil {
					break
				}
			}
			pc.dead = true
		case "readWhole", "readWholeLimit", "readWholeCut":
			// Conn.Read: the whole message, or what had arrived of it when the read failed (limit exceeded / transport ended)
			if pc.r != nil && !pc.atEOF {
				cancel()
				continue
			}
			pc.nmsg++
			pc.exp = poolBody(pc.tag, pc.nmsg, 700+rng.Intn(1500))
			pc.r, pc.off, pc.atEOF = nil, 0, false
			comp := rng.Intn(2) == 0
			wire := pc.exp
			if comp {
				wire = pc.defl.Compress(pc.exp)
			}
			h := len(wire) / 2
			pc.peerSend(ws.Frame{Fin: false, Rsv1: comp, Op: ws.OpBin, Payload: wire[:h]})
			switch op {
			case "readWhole":
				pc.peerSend(ws.Frame{Fin: true, Op: ws.OpCont, Payload: wire[h:]})
			case "readWholeLimit":
				pc.c.SetReadLimit(int64(100 + rng.Intn(400)))
				pc.peerSend(ws.Frame{Fin: true, Op: ws.OpCont, Payload: wire[h:]})
			case "readWholeCut":
				pc.raw.Out.CloseWrite(nil)
			}
			_, got, err := pc.c.Read(ctx)
			if len(got) > len(pc.exp) || !bytes.Equal(got, pc.exp[:len(got)]) {
				rep.miss("read-returned-bytes-not-sent-on-this-connection", pcase, fmt.Sprintf("conn %d %s: got %.50q err=%v", pc.tag, op, got, err))
			} else if op == "readWhole" && (err != nil || len(got) != len(pc.exp)) {
				rep.miss("message-ended-early", pcase, fmt.Sprintf("conn %d %s: %d of %d bytes, err=%v", pc.tag, op, len(got), len(pc.exp), err))
			}
			if len(got) > 0 {
				held = append(held, heldResult{got: got, want: append([]byte(nil), got...), tag: pc.tag, how: fmt.Sprintf("%s (err=%v)", op, err != nil)})
			}
			if err != nil || op != "readWhole" {
				pc.dead = true
			}
		case "closeNow":
			pc.c.CloseNow()
			pc.dead = true
		case "ctxExpireMid":
			startIt := pc.r == nil || pc.atEOF
			cctx, ccancel := context.WithCancel(bg)
			if startIt {
				startMsg(pc, false)
				_, r, err := pc.c.Reader(cctx)
				if err != nil {
					pc.dead = true
					ccancel()
					cancel()
					continue
				}
				pc.r = r
				time.AfterFunc(5*time.Millisecond, ccancel)
				for {
					n, err := pc.r.Read(buf)
					if !check(pc, n, "ctxExpireMid") || err != nil {
						break
					}
				}
				pc.dead = true
			}
			ccancel()
		case "dictProbe":
			// A fresh connection must start with an EMPTY inflate dictionary: its first compressed message is built
			// against a preset dictionary the receiver cannot have, so every back-reference points before the start of
			// the stream.  With an empty window the inflater must fail; a window recycled from another connection
			// without being cleared would instead hand out that connection's bytes.
			tagSeq++
			npc, err := newPoolConn(rng, tagSeq)
			if err != nil {
				cancel()
				continue
			}
			conns = append(conns, npc)
			pcase.Modes = append(pcase.Modes, npc.mode)
			dict := bytes.Repeat([]byte("<probe-dictionary-never-sent-to-this-receiver>"), 60)
			var zb bytes.Buffer
			fw, _ := flate.NewWriterDict(&zb, flate.BestCompression, dict)
			fw.Write(dict[:1500])
			fw.Flush()
			z := bytes.TrimSuffix(zb.Bytes(), []byte{0, 0, 0xff, 0xff})
			npc.peerSend(ws.Frame{Fin: true, Rsv1: true, Op: ws.OpBin, Payload: z})
			_, r, err := npc.c.Reader(ctx)
			if err == nil {
				got, rerr := io.ReadAll(r)
				if len(got) > 0 && !bytes.HasPrefix(dict, got) && !bytes.Contains(dict, got[:min(len(got), 20)]) {
					rep.miss("read-returned-bytes-not-sent-on-this-connection", pcase, fmt.Sprintf("fresh conn %d, dictionary probe: got %d bytes %.60q err=%v", npc.tag, len(got), got, rerr))
				} else if rerr == nil && len(got) > 0 {
					rep.miss("fresh-connection-decoded-against-nonempty-dictionary", pcase, fmt.Sprintf("fresh conn %d: %d bytes %.40q", npc.tag, len(got), got))
				}
			}
			npc.dead = true
		case "newConn":
			tagSeq++
			npc, err := newPoolConn(rng, tagSeq)
			if err == nil {
				if pc.dead {
					pc.c.CloseNow()
					pc.raw.Close()
					conns[ci] = npc
				} else {
					conns = append(conns, npc)
				}
				pcase.Modes = append(pcase.Modes, npc.mode)
			}
		}
		cancel()
		inspect(op)
	}
	return pcase
}

func init() {
	families["pool"] = func(args []string) error {
		fs := flag.NewFlagSet("pool", flag.ExitOnError)
		n := fs.Int("n", 100, "programs")
		seed := fs.Int64("seed", 1, "seed")
		out := fs.String("pool-trace", "", "output NDJSON for TracePool")
		fs.Parse(args)
		rep := newReport("pool")
		tr := &ws.Tracer{}
		tr.Install()
		kinds := map[string]bool{}
		if *out != "" {
			os.Remove(*out)
		}
		total := 0
		for i := 0; i < *n; i++ {
			pc := runPoolCase(rep, *seed*7919+int64(i))
			rep.Evaluations++
			k := ""
			for _, s := range pc.Steps {
				k += s.Op + ","
			}
			kinds[k] = true
			if len(pc.Steps) > 8 {
				rep.sample(pc)
			}
			time.Sleep(2 * time.Millisecond)
			evs := tr.Take()
			var keep []websocket.VerifEvent
			keep = append(keep, websocket.VerifEvent{Ev: "PoolReset"})
			for _, e := range evs {
				switch e.Ev {
				case "PoolGet", "PoolPut", "UseBegin", "UseEnd", "CloseExit":
					keep = append(keep, e)
				}
			}
			total += len(keep)
			if *out != "" {
				if err := ws.WriteNDJSON(*out, keep); err != nil {
					return err
				}
			}
		}
		rep.Distinct = int64(len(kinds))
		rep.Extra["pool_events"] = total
		rep.print()
		return nil
	}
}
