package main

import (
	"bytes"
	"context"
	"encoding/json"
	"errors"
	"flag"
	"fmt"
	"io"
	"math/rand"
	"runtime"
	"sync"
	"sync/atomic"
	"time"

	"nhooyr.io/websocket"
	"nhooyr.io/websocket/wsjson"
	"verifharness/ws"
)

// ---- letters and rows as written by spec/WSRecvRows.tla ----

type letter struct {
	N      string `json:"n"`
	Op     int    `json:"op"`
	Fin    bool   `json:"fin"`
	Rsv1   bool   `json:"rsv1"`
	Rsv2   bool   `json:"rsv2"`
	Rsv3   bool   `json:"rsv3"`
	MaskOK bool   `json:"maskOK"`
	Len    int    `json:"len"`
	Neg    bool   `json:"neg"`
	Code   int    `json:"code"`
}

type rdObs struct {
	O   string `json:"o"`
	T   string `json:"t"`
	Fr  []int  `json:"fr"`
	Z   bool   `json:"z"`
	I   int    `json:"i"`
	Acc []int  `json:"acc"`
}

type wrObs struct {
	O    string `json:"o"`
	I    int    `json:"i"`
	Code int    `json:"code"`
}

type expRun struct {
	Reader []rdObs `json:"reader"`
	Wire   []wrObs `json:"wire"`
}

type c03Row struct {
	Names []string `json:"names"`
	Exp   expRun   `json:"exp"`
}

type cutExp struct {
	Msgs    []rdObs `json:"msgs"`
	Wire    []wrObs `json:"wire"`
	Partial []int   `json:"partial"`
	T       string  `json:"t"`
}

type c04Row struct {
	Names []string `json:"names"`
	Cuts  []struct {
		Boundary cutExp `json:"boundary"`
		Header   cutExp `json:"header"`
		Payload  cutExp `json:"payload"`
	} `json:"cuts"`
}

// ---- concretisation ----

type concFrame struct {
	bytes  []byte // wire bytes
	hdrLen int
	plain  []byte // application bytes this frame contributes (uncompressed data frames, control payloads)
	isData bool
	msg    int // index into concStream.msgs for data frames of a recognised message, else -1
	f      ws.Frame
}

type concMsg struct {
	comp  bool
	plain []byte // full plaintext of the planned message (all its planned frames)
}

type concStream struct {
	frames []concFrame
	msgs   []concMsg
	bytes  []byte
}

func prf(seed int64, i, n int) []byte {
	b := make([]byte, n)
	x := uint64(seed)*0x9E3779B97F4A7C15 + uint64(i+1)*0xBF58476D1CE4E5B9
	for j := range b {
		x ^= x << 13
		x ^= x >> 7
		x ^= x << 17
		b[j] = byte('a' + x%26)
	}
	return b
}

// compressible plaintext contributed by frame i of a compressed message
// zplain is the compressible text of one fragment. Every message of a stream repeats the same 7-byte unit, so that with context
// takeover a later message is encoded as references into an earlier one: an inflater that follows the wrong side of an
// asymmetric agreement (no dictionary kept where the sender keeps one) cannot decode it.
func zplain(seed int64, i, n int) []byte {
	unit := prf(seed, 0, 7)
	var b []byte
	for len(b) < n*9 {
		b = append(b, unit...)
		b = append(b, byte('0'+i%10))
	}
	return b
}

type variant struct {
	Client  bool   `json:"client"` // role of the library endpoint
	Mode    string `json:"mode"`
	Chunk   string `json:"chunk"` // whole | one | rand
	Final   bool   `json:"bfinal"`
	ReadBuf int    `json:"readbuf"`
	API     string `json:"api"` // reader | read | wsjson | netconn
	// Body: what the data messages say.  "" = pseudo-random bytes; "json" = every planned message is one JSON string spanning all
	// its fragments; "jsonpad" = the JSON value is complete at the end of the first non-empty fragment and the rest of the
	// message is white space (or empty fragments): a decoder that stops at the end of the value has not seen the end of the message
	Body string `json:"body,omitempty"`
	// Scale > 0 replaces the 5-byte payload of data letters by Scale incompressible bytes
	// (sizes around the library's internal buffer sizes and the framing boundaries)
	Scale int `json:"scale,omitempty"`
}

// jsonBody is a JSON text of exactly total bytes: a string (a digit when there is room for one byte only, nothing when there
// is none); with pad the value ends after first bytes and blanks follow.
func jsonBody(seed int64, i, total, first int, pad bool) []byte {
	n := total
	if pad && first > 0 {
		n = first
	}
	b := make([]byte, 0, total)
	switch {
	case n == 0:
	case n == 1:
		b = append(b, '7')
	default:
		b = append(b, '"')
		for k := 0; k < n-2; k++ {
			b = append(b, byte('a'+(int(seed)+i+k)%26))
		}
		b = append(b, '"')
	}
	for len(b) < total {
		b = append(b, " \n\t"[len(b)%3])
	}
	return b
}

func rawRandom(seed int64, i, n int) []byte {
	b := make([]byte, n)
	rand.New(rand.NewSource(seed*131 + int64(i))).Read(b)
	return b
}

func concretise(ls []letter, v variant, seed int64) concStream {
	if v.Scale > 0 {
		ls = append([]letter(nil), ls...)
		for i := range ls {
			if ls[i].Op <= 2 && ls[i].Len == 5 {
				ls[i].Len = v.Scale
			}
		}
	}
	var cs concStream
	mode := ws.Mode(v.Mode)
	peerMasks := !v.Client
	c2s, s2c := mode.Takeover()
	takeover := c2s
	if v.Client {
		takeover = s2c
	}
	defl := &ws.Deflater{Takeover: takeover}
	rng := rand.New(rand.NewSource(seed))
	n := len(ls)
	pieces := make([][]byte, n) // wire payload for frames of compressed messages
	msgOf := make([]int, n)
	for i := range msgOf {
		msgOf[i] = -1
	}
	// group frames into planned messages (sender's view): first data frame .. final continuation
	for i := 0; i < n; i++ {
		l := ls[i]
		if !(l.Op == 1 || l.Op == 2) || msgOf[i] != -1 || l.Neg || l.Rsv2 || l.Rsv3 || !l.MaskOK {
			continue
		}
		group := []int{i}
		if !l.Fin {
			for j := i + 1; j < n; j++ {
				lj := ls[j]
				if lj.Op >= 8 && lj.Op <= 10 && lj.Fin && lj.Len <= 125 && !lj.Rsv1 && !lj.Rsv2 && !lj.Rsv3 && lj.MaskOK && lj.Op != 8 {
					continue // interleaved control frame
				}
				if lj.Op == 0 && !lj.Rsv1 && !lj.Rsv2 && !lj.Rsv3 && lj.MaskOK {
					group = append(group, j)
					if lj.Fin {
						break
					}
					continue
				}
				break
			}
		}
		comp := l.Rsv1 && mode.Flate()
		m := concMsg{comp: comp}
		mi := len(cs.msgs)
		if v.Body != "" {
			total, first := 0, 0
			for _, g := range group {
				total += ls[g].Len
				if first == 0 {
					first = ls[g].Len
				}
			}
			m.plain = jsonBody(seed, i, total, first, v.Body == "jsonpad")
		}
		for _, g := range group {
			msgOf[g] = mi
			if v.Body != "" {
				continue
			}
			if comp && v.Scale > 0 {
				m.plain = append(m.plain, rawRandom(seed, g, ls[g].Len)...)
			} else if comp {
				m.plain = append(m.plain, zplain(seed, g, ls[g].Len)...)
			} else {
				m.plain = append(m.plain, prf(seed, g, ls[g].Len)...)
			}
		}
		if comp {
			var z []byte
			if v.Final && ls[group[len(group)-1]].Fin {
				z = ws.CompressFinal(m.plain)
			} else {
				z = defl.Compress(m.plain)
			}
			// split z over the non-empty frames of the group
			var nz []int
			for _, g := range group {
				if ls[g].Len > 0 {
					nz = append(nz, g)
				}
			}
			for k, g := range nz {
				a, b := len(z)*k/len(nz), len(z)*(k+1)/len(nz)
				pieces[g] = z[a:b]
			}
		}
		cs.msgs = append(cs.msgs, m)
	}
	used := make([]int, len(cs.msgs)) // bytes of each planned message already put into frames (Body != "")
	for i, l := range ls {
		f := ws.Frame{Fin: l.Fin, Rsv1: l.Rsv1, Rsv2: l.Rsv2, Rsv3: l.Rsv3, Op: l.Op}
		f.Masked = peerMasks == l.MaskOK
		if f.Masked {
			rng.Read(f.Key[:])
		}
		cf := concFrame{msg: msgOf[i]}
		switch {
		case l.Neg:
			x := uint64(1)<<63 | uint64(rng.Intn(1000))
			f.LenOverride = &x
		case l.Op == 8:
			switch {
			case l.Len == 0:
			case l.Len == 1:
				f.Payload = []byte{3}
			default:
				f.Payload = ws.ClosePayload(l.Code, string(prf(seed, i, l.Len-2)))
			}
			cf.plain = f.Payload
		case msgOf[i] >= 0 && cs.msgs[msgOf[i]].comp:
			f.Payload = pieces[i]
			cf.isData = true
		case v.Body != "" && msgOf[i] >= 0:
			mi := msgOf[i]
			f.Payload = cs.msgs[mi].plain[used[mi] : used[mi]+l.Len]
			used[mi] += l.Len
			cf.plain = f.Payload
			cf.isData = true
		default:
			f.Payload = prf(seed, i, l.Len)
			cf.plain = f.Payload
			cf.isData = l.Op <= 2
		}
		cf.bytes = f.Encode()
		cf.f = f
		cf.hdrLen = len(cf.bytes) - len(f.Payload)
		if l.Neg {
			cf.hdrLen = len(cf.bytes)
		}
		cs.frames = append(cs.frames, cf)
		cs.bytes = append(cs.bytes, cf.bytes...)
	}
	return cs
}

// ---- running one connection ----

type gotMsg struct {
	typ  websocket.MessageType
	data []byte
}

type recvObs struct {
	msgs        []gotMsg
	finalErr    error
	partial     []byte // bytes handed for the message whose read failed
	partialTyp  websocket.MessageType
	inMsg       bool // the failing call was a Read inside a message (Reader had succeeded)
	wire        []ws.Frame
	wireRest    []byte
	wireErr     error
	panicked    string
	pending     bool
	handedTotal int
	jsonVals    []interface{} // API wsjson: the values of the calls that returned nil
	stream      []byte        // API netconn: every byte NetConn.Read handed over
}

type recvCfg struct {
	v       variant
	stream  []byte
	cutAt   int   // -1 = whole stream then EOF
	endErr  error // nil = EOF
	limit   *int64
	limits  []*int64 // per-message SetReadLimit before reading message k (nil = keep)
	maxMsgs int
	sent    []concFrame           // the frames stream consists of, when it was built from frames (announced to TraceRecv)
	ncType  websocket.MessageType // API netconn: the message type the adapter is created for
}

func runRecv(cfg recvCfg, rng *rand.Rand) (o recvObs) {
	mode := ws.Mode(cfg.v.Mode)
	c, raw, err := ws.NewConn(cfg.v.Client, mode, 0)
	if err != nil {
		o.panicked = "handshake: " + err.Error()
		return
	}
	defer c.CloseNow()
	if recvTracer != nil && cfg.sent != nil {
		ws.LogPeerScripted(c)
		for _, cf := range cfg.sent {
			ws.LogPeerSent(c, cf.f)
		}
	}
	switch cfg.v.Chunk {
	case "one":
		raw.Out.Chunk = 1
	case "rand":
		raw.Out.ChunkFn = func() int { return 1 + rng.Intn(9) }
	case "split2":
		// two transport reads: the boundary falls at a seeded position, often inside a header or a payload
		first := true
		at := 1
		if n := len(cfg.stream); n > 1 {
			at = 1 + rng.Intn(n-1)
		}
		raw.Out.ChunkFn = func() int {
			if first {
				first = false
				return at
			}
			return 1 << 20
		}
	}
	data := cfg.stream
	if cfg.cutAt >= 0 {
		data = data[:cfg.cutAt]
	}
	raw.Out.Write(data)
	raw.Out.CloseWrite(cfg.endErr)

	ctx, cancel := context.WithTimeout(context.Background(), 8*time.Second)
	defer cancel()
	func() {
		defer func() {
			if r := recover(); r != nil {
				o.panicked = fmt.Sprint(r)
			}
		}()
		if cfg.limit != nil {
			c.SetReadLimit(*cfg.limit)
		}
		buf := make([]byte, cfg.v.ReadBuf)
		if cfg.v.API == "netconn" {
			nc := websocket.NetConn(ctx, c, cfg.ncType)
			for {
				n, err := nc.Read(buf)
				o.stream = append(o.stream, buf[:n]...)
				o.handedTotal += n
				if err != nil {
					o.finalErr = err
					return
				}
			}
		}
		for k := 0; ; k++ {
			if cfg.v.API == "wsjson" {
				var v interface{}
				if err := wsjson.Read(ctx, c, &v); err != nil {
					o.finalErr = err
					return
				}
				o.jsonVals = append(o.jsonVals, v)
				continue
			}
			if k < len(cfg.limits) && cfg.limits[k] != nil {
				c.SetReadLimit(*cfg.limits[k])
			}
			if cfg.v.API == "read" {
				typ, b, err := c.Read(ctx)
				if err != nil {
					o.finalErr = err
					o.partial = b
					o.partialTyp = typ
					o.inMsg = typ != 0
					o.handedTotal += len(b)
					return
				}
				o.msgs = append(o.msgs, gotMsg{typ, b})
				o.handedTotal += len(b)
				continue
			}
			typ, r, err := c.Reader(ctx)
			if err != nil {
				o.finalErr = err
				return
			}
			var got []byte
			for {
				n, err := r.Read(buf)
				got = append(got, buf[:n]...)
				o.handedTotal += n
				if err == io.EOF {
					o.msgs = append(o.msgs, gotMsg{typ, got})
					break
				}
				if err != nil {
					o.finalErr = err
					o.partial = got
					o.partialTyp = typ
					o.inMsg = true
					return
				}
			}
			if cfg.maxMsgs > 0 && len(o.msgs) >= cfg.maxMsgs {
				return
			}
		}
	}()
	if ctx.Err() != nil {
		o.pending = true
	}
	c.CloseNow()
	o.wire, o.wireRest, o.wireErr = ws.DecodeAll(raw.In.Snapshot())
	return
}

func typName(t websocket.MessageType) string {
	switch t {
	case websocket.MessageText:
		return "text"
	case websocket.MessageBinary:
		return "bin"
	}
	return "none"
}

func (cs *concStream) msgBytes(ls []letter, fr []int) []byte {
	if len(fr) == 0 {
		return nil
	}
	if mi := cs.frames[fr[0]-1].msg; mi >= 0 && cs.msgs[mi].comp {
		return cs.msgs[mi].plain
	}
	var b []byte
	for _, i := range fr {
		b = append(b, cs.frames[i-1].plain...)
	}
	return b
}

type caseID struct {
	Names   []string `json:"names"`
	V       variant  `json:"variant"`
	Seed    int64    `json:"seed"`
	Cut     int      `json:"cut,omitempty"`
	CutKind string   `json:"cutkind,omitempty"`
	EndErr  bool     `json:"enderr,omitempty"`
	ncType  websocket.MessageType
}

// checkWire compares the frames the library wrote with the specification's wire prediction.
func checkWire(rep *Report, id caseID, cs *concStream, ls []letter, exp []wrObs, o *recvObs, allowCloseAfterEnd bool) {
	libMasks := id.V.Client
	fs := o.wire
	if o.wireErr != nil || len(o.wireRest) != 0 {
		rep.miss("wire-undecodable", id, fmt.Sprintf("err=%v rest=%d bytes", o.wireErr, len(o.wireRest)))
		return
	}
	for _, f := range fs {
		if f.Masked != libMasks {
			rep.miss("wire-masking-wrong-for-role", id, fmt.Sprintf("op=%d masked=%v", f.Op, f.Masked))
			return
		}
		if f.Rsv1 || f.Rsv2 || f.Rsv3 || !f.Fin || len(f.Payload) > 125 || !(f.Op == 8 || f.Op == 10) {
			rep.miss("wire-unexpected-frame", id, fmt.Sprintf("op=%d fin=%v rsv=%v%v%v len=%d", f.Op, f.Fin, f.Rsv1, f.Rsv2, f.Rsv3, len(f.Payload)))
			return
		}
	}
	k := 0
	for _, e := range exp {
		switch e.O {
		case "pong":
			if k >= len(fs) || fs[k].Op != 10 {
				rep.miss("wire-pong-missing", id, fmt.Sprintf("expected pong for frame %d at wire position %d", e.I, k))
				return
			}
			if !bytes.Equal(fs[k].Payload, cs.frames[e.I-1].plain) {
				rep.miss("wire-pong-payload", id, fmt.Sprintf("pong %q for ping %q", fs[k].Payload, cs.frames[e.I-1].plain))
				return
			}
			k++
		case "closeEcho":
			if k >= len(fs) || fs[k].Op != 8 {
				rep.miss("wire-close-echo-missing", id, fmt.Sprintf("at wire position %d of %d", k, len(fs)))
				return
			}
			if !bytes.Equal(fs[k].Payload, cs.frames[e.I-1].plain) {
				rep.miss("wire-close-echo-payload", id, fmt.Sprintf("echo %x for close %x", fs[k].Payload, cs.frames[e.I-1].plain))
				return
			}
			k++
		case "closeOpt":
			if k < len(fs) && fs[k].Op == 8 {
				p := fs[k].Payload
				if len(p) < 2 || int(p[0])<<8|int(p[1]) != e.Code {
					rep.miss("wire-close-code", id, fmt.Sprintf("close payload %x, expected code %d", p, e.Code))
					return
				}
				k++
			}
		}
	}
	if k < len(fs) {
		sig := "wire-extra-frame"
		if fs[k].Op == 8 {
			sig = "wire-extra-close-frame"
		}
		rep.miss(sig, id, fmt.Sprintf("%d frames beyond the predicted ones; first op=%d payload=%x", len(fs)-k, fs[k].Op, fs[k].Payload))
	}
}

func checkMsgs(rep *Report, id caseID, cs *concStream, ls []letter, exp []rdObs, o *recvObs) bool {
	nexp := 0
	for _, e := range exp {
		if e.O == "msg" {
			nexp++
		}
	}
	for k, e := range exp {
		if e.O != "msg" {
			continue
		}
		if k >= len(o.msgs) {
			rep.miss("msg-missing", id, fmt.Sprintf("message %d of %d not delivered; final err=%v", k+1, nexp, o.finalErr))
			return false
		}
		g := o.msgs[k]
		want := cs.msgBytes(ls, e.Fr)
		if typName(g.typ) != e.T {
			rep.miss("msg-type", id, fmt.Sprintf("message %d type %s want %s", k+1, typName(g.typ), e.T))
			return false
		}
		if !bytes.Equal(g.data, want) {
			sig := "msg-bytes"
			for _, i := range e.Fr {
				if !ls[i-1].MaskOK {
					sig = "wrong-mask-frame-delivered"
				}
			}
			rep.miss(sig, id, fmt.Sprintf("message %d: got %d bytes %.40q want %d bytes %.40q", k+1, len(g.data), g.data, len(want), want))
			return false
		}
	}
	if len(o.msgs) > nexp {
		// an extra message: either the partial message was reported complete, or a violating frame was delivered
		sig := "extra-message-delivered"
		last := exp[len(exp)-1]
		if last.O == "transportEnd" && len(last.Acc) > 0 || last.O == "cut" {
			sig = "clean-end-of-partial-message"
		}
		for _, l := range ls {
			if !l.MaskOK {
				sig = "wrong-mask-frame-delivered"
			}
		}
		rep.miss(sig, id, fmt.Sprintf("%d messages delivered, %d predicted; extra=%.40q", len(o.msgs), nexp, o.msgs[nexp].data))
		return false
	}
	return true
}

func checkPartialPrefix(rep *Report, id caseID, cs *concStream, ls []letter, acc []int, o *recvObs) {
	if len(o.partial) == 0 {
		return
	}
	want := cs.msgBytes(ls, acc)
	if len(acc) == 0 || !bytes.HasPrefix(want, o.partial) {
		rep.miss("partial-not-prefix", id, fmt.Sprintf("handed %.60q is not a prefix of %.60q", o.partial, want))
	}
}

func checkC03(rep *Report, id caseID, ls []letter, row *c03Row, cs *concStream, o *recvObs) {
	if o.panicked != "" {
		rep.miss("panic", id, o.panicked)
		return
	}
	if o.pending {
		rep.miss("pending", id, "reader did not finish within 8s")
		return
	}
	if !checkMsgs(rep, id, cs, ls, row.Exp.Reader, o) {
		return
	}
	fin := row.Exp.Reader[len(row.Exp.Reader)-1]
	if o.finalErr == nil {
		rep.miss("no-final-error", id, "reader loop ended without error")
		return
	}
	switch fin.O {
	case "closeErr":
		var ce websocket.CloseError
		if !errors.As(o.finalErr, &ce) {
			rep.miss("close-not-reported-as-CloseError", id, o.finalErr.Error())
			return
		}
		p := cs.frames[fin.I-1].plain
		wantCode, wantReason := 1005, ""
		if len(p) >= 2 {
			wantCode, wantReason = int(p[0])<<8|int(p[1]), string(p[2:])
		}
		if int(ce.Code) != wantCode || ce.Reason != wantReason || int(websocket.CloseStatus(o.finalErr)) != wantCode {
			rep.miss("close-error-content", id, fmt.Sprintf("got %d %q want %d %q", ce.Code, ce.Reason, wantCode, wantReason))
			return
		}
		checkPartialPrefix(rep, id, cs, ls, fin.Acc, o)
	case "fail":
		checkPartialPrefix(rep, id, cs, ls, fin.Acc, o)
	case "transportEnd":
		checkPartialPrefix(rep, id, cs, ls, fin.Acc, o)
	}
	checkWire(rep, id, cs, ls, row.Exp.Wire, o, false)
}

// ---- family: recv (C03) ----

func loadLetters(path string) (map[string]letter, error) {
	m := map[string]letter{}
	err := readNDJSON(path, func(b []byte) error {
		var l letter
		if err := json.Unmarshal(b, &l); err != nil {
			return err
		}
		m[l.N] = l
		return nil
	})
	return m, err
}

func lettersOf(m map[string]letter, names []string) []letter {
	ls := make([]letter, len(names))
	for i, n := range names {
		ls[i] = m[n]
	}
	return ls
}

func parallel(n int, jobs <-chan func(rng *rand.Rand), seed int64) {
	var wg sync.WaitGroup
	for w := 0; w < n; w++ {
		wg.Add(1)
		go func(w int) {
			defer wg.Done()
			rng := rand.New(rand.NewSource(seed*1000 + int64(w)))
			for j := range jobs {
				j(rng)
			}
		}(w)
	}
	wg.Wait()
}

func init() {
	families["recv"] = func(args []string) error {
		fs := flag.NewFlagSet("recv", flag.ExitOnError)
		lettersPath := fs.String("letters", "", "letters.ndjson")
		rowsOff := fs.String("rows-off", "", "C03 rows, permessage-deflate not negotiated")
		rowsOn := fs.String("rows-on", "", "C03 rows, permessage-deflate negotiated")
		seed := fs.Int64("seed", 1, "seed")
		chunks := fs.String("chunks", "whole,one", "comma list of chunkings")
		modesOn := fs.String("modes-on", "ct,nct", "modes used with rows-on")
		bfinal := fs.Bool("bfinal", true, "also end compressed messages with a BFINAL=1 block")
		maxRows := fs.Int("max-rows", 0, "sample at most this many rows per file (0 = all)")
		fuzz := fs.Int("fuzz", 0, "number of raw / mutated byte strings (no-panic and termination only)")
		sizes := fs.String("sizes", "", "comma list of a-b ranges: payload sizes for the carrier rows (buffer and framing boundaries)")
		recvTrace := fs.String("recv-trace", "", "output NDJSON of the hook events of every k-th connection, for TraceRecv")
		traceEvery := fs.Int("trace-every", 20, "k")
		fs.Parse(args)
		setupRecvTrace(*recvTrace, *traceEvery)
		var sizeList []int
		for _, r := range splitComma(*sizes) {
			var a, b int
			if n, _ := fmt.Sscanf(r, "%d-%d", &a, &b); n == 2 {
				for x := a; x <= b; x++ {
					sizeList = append(sizeList, x)
				}
			}
		}
		carriers := map[string]bool{}
		for _, c := range [][]string{{"ZT1", "T1"}, {"ZT1", "ZT1"}, {"ZB0", "C1", "T1"}, {"ZB0", "C1e", "B1"}, {"ZT1", "PING3"}, {"T1", "T1"}, {"T0", "C1", "T1"}, {"B0", "C0", "C1"}} {
			carriers[fmt.Sprint(c)] = true
		}
		lm, err := loadLetters(*lettersPath)
		if err != nil {
			return err
		}
		rep := newReport("recv")
		var evals, rows int64
		distinct := map[string]bool{}
		var dmu sync.Mutex
		jobs := make(chan func(*rand.Rand), 256)
		done := make(chan struct{})
		go func() { parallel(runtime.GOMAXPROCS(0), jobs, *seed); close(done) }()
		feed := func(path string, modes []string) error {
			if path == "" {
				return nil
			}
			k := 0
			return readNDJSON(path, func(b []byte) error {
				k++
				if *maxRows > 0 && (int64(k)*2654435761+*seed)%int64(1 + k / *maxRows) != 0 && k > *maxRows {
					return nil
				}
				row := &c03Row{}
				if err := json.Unmarshal(b, row); err != nil {
					return err
				}
				atomic.AddInt64(&rows, 1)
				ls := lettersOf(lm, row.Names)
				for _, client := range []bool{false, true} {
					for _, mode := range modes {
						for _, ch := range splitComma(*chunks) {
							finals := []bool{false}
							if *bfinal && mode != "off" && hasComp(ls) {
								finals = []bool{false, true}
							}
							for _, fin := range finals {
								v := variant{Client: client, Mode: mode, Chunk: ch, Final: fin, ReadBuf: 512, API: "reader"}
								id := caseID{Names: row.Names, V: v, Seed: *seed}
								jobs <- func(rng *rand.Rand) {
									cs := concretise(ls, v, id.Seed)
									o := runRecv(recvCfg{v: v, sent: cs.frames, stream: cs.bytes, cutAt: -1}, rng)
									checkC03(rep, id, ls, row, &cs, &o)
									atomic.AddInt64(&evals, 1)
									if len(id.Names) >= 3 && id.V.Mode != "off" {
										rep.sample(id)
									}
								}
							}
						}
					}
				}
				if sizeList != nil && carriers[fmt.Sprint(row.Names)] {
					unlimited := int64(-1)
					for _, client := range []bool{false, true} {
						for _, mode := range modes {
							for _, sz := range sizeList {
								for _, fin := range []bool{false, true} {
									if fin && (mode == "off" || !hasComp(ls)) {
										continue
									}
									v := variant{Client: client, Mode: mode, Chunk: "whole", Final: fin, ReadBuf: 4096, API: "reader", Scale: sz}
									id := caseID{Names: row.Names, V: v, Seed: *seed}
									jobs <- func(rng *rand.Rand) {
										cs := concretise(ls, v, id.Seed)
										o := runRecv(recvCfg{v: v, sent: cs.frames, stream: cs.bytes, cutAt: -1, limit: &unlimited}, rng)
										checkC03(rep, id, lsScaled(ls, v.Scale), row, &cs, &o)
										atomic.AddInt64(&evals, 1)
									}
								}
							}
						}
					}
				}
				dmu.Lock()
				distinct[fmt.Sprint(row.Names)] = true
				dmu.Unlock()
				return nil
			})
		}
		if err := feed(*rowsOff, []string{"off"}); err != nil {
			return err
		}
		if err := feed(*rowsOn, splitComma(*modesOn)); err != nil {
			return err
		}
		// raw byte strings and mutated valid streams: only "never a panic, always terminates" is required of them
		for i := 0; i < *fuzz; i++ {
			i := i
			jobs <- func(rng *rand.Rand) {
				fr := rand.New(rand.NewSource(*seed*7777 + int64(i)))
				client := fr.Intn(2) == 0
				mode := []string{"off", "ct", "nct"}[fr.Intn(3)]
				var data []byte
				switch fr.Intn(3) {
				case 0:
					data = make([]byte, fr.Intn(300))
					fr.Read(data)
				case 1: // a valid frame sequence with a few flipped bytes
					for k := 0; k < 1+fr.Intn(4); k++ {
						f := ws.Frame{Fin: fr.Intn(2) == 0, Op: []int{0, 1, 2, 8, 9, 10}[fr.Intn(6)], Masked: !client, Rsv1: mode != "off" && fr.Intn(3) == 0, Payload: prf(int64(i), k, fr.Intn(140))}
						fr.Read(f.Key[:])
						data = append(data, f.Encode()...)
					}
					for k := 0; k < 1+fr.Intn(3) && len(data) > 0; k++ {
						data[fr.Intn(len(data))] ^= byte(1 << uint(fr.Intn(8)))
					}
				default: // a compressed frame whose DEFLATE payload is garbage or truncated
					z := (&ws.Deflater{}).Compress(prf(int64(i), 1, 50+fr.Intn(500)))
					if len(z) > 2 {
						z = z[:fr.Intn(len(z))]
					}
					if fr.Intn(2) == 0 && len(z) > 0 {
						z[fr.Intn(len(z))] ^= 0xff
					}
					f := ws.Frame{Fin: true, Rsv1: true, Op: ws.OpBin, Masked: !client, Payload: z}
					data = f.Encode()
				}
				v := variant{Client: client, Mode: mode, Chunk: []string{"whole", "one", "rand"}[fr.Intn(3)], ReadBuf: 64, API: "reader"}
				o := runRecv(recvCfg{v: v, stream: data, cutAt: -1}, rng)
				id := map[string]interface{}{"fuzz": i, "variant": v, "bytes": fmt.Sprintf("%x", data)}
				if o.panicked != "" {
					rep.miss("panic", id, o.panicked)
				} else if o.pending {
					rep.miss("pending", id, "reader did not finish within 8s on arbitrary input")
				}
				atomic.AddInt64(&evals, 1)
			}
		}
		close(jobs)
		<-done
		rep.Evaluations, rep.Rows, rep.Distinct = evals, rows, int64(len(distinct))
		if err := finishRecvTrace(*recvTrace, rep); err != nil {
			return err
		}
		rep.print()
		return nil
	}
}

func lsScaled(ls []letter, scale int) []letter {
	out := append([]letter(nil), ls...)
	for i := range out {
		if out[i].Op <= 2 && out[i].Len == 5 {
			out[i].Len = scale
		}
	}
	return out
}

func hasComp(ls []letter) bool {
	for _, l := range ls {
		if l.Rsv1 && (l.Op == 1 || l.Op == 2) {
			return true
		}
	}
	return false
}

func splitComma(s string) []string {
	var out []string
	for _, p := range bytes.Split([]byte(s), []byte(",")) {
		if len(p) > 0 {
			out = append(out, string(p))
		}
	}
	return out
}
