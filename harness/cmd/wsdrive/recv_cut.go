package main

import (
	"bytes"
	"encoding/json"
	"errors"
	"flag"
	"fmt"
	"io"
	"math/rand"
	"reflect"
	"runtime"
	"sync"
	"sync/atomic"

	"nhooyr.io/websocket"
	"verifharness/ws"
)

// ---- family: cut (C04) ----
// Every byte offset of every TLC-generated valid stream is used as the point where the
// transport ends (EOF) or fails (error); the outcome is compared with WSRecv!RunCut.

// checkCutAdapters judges the two adapters over Conn.Reader (anchors netconn.go, wsjson/wsjson.go): whatever they deliver before
// the cut is what the complete messages said, the message that was cut is never reported as a value / never ends the stream
// cleanly, and the call that meets the cut fails.
func checkCutAdapters(rep *Report, id caseID, ls []letter, exp *cutExp, cs *concStream, o *recvObs, ncType websocket.MessageType) {
	if o.finalErr == nil {
		rep.miss("no-final-error", id, "reader loop ended without error")
		return
	}
	switch id.V.API {
	case "wsjson":
		var want []interface{}
		nmsg := 0
		for _, e := range exp.Msgs {
			if e.O != "msg" {
				continue
			}
			nmsg++
			var v interface{}
			if json.Unmarshal(cs.msgBytes(ls, e.Fr), &v) != nil { // (wsjson.Read does not look at the message type)
				nmsg = -1
				break // wsjson.Read fails here (and closes the connection): nothing after it is delivered
			}
			want = append(want, v)
		}
		if len(o.jsonVals) > len(want) {
			sig := "extra-message-delivered"
			if len(want) == nmsg {
				sig = "clean-end-of-partial-message"
			}
			rep.miss(sig, id, fmt.Sprintf("wsjson.Read returned %d values, %d messages were received completely; extra=%.40v", len(o.jsonVals), len(want), o.jsonVals[len(want)]))
			return
		}
		if len(o.jsonVals) < len(want) {
			rep.miss("msg-missing", id, fmt.Sprintf("wsjson.Read returned %d values, %d messages were received completely; final err=%v", len(o.jsonVals), len(want), o.finalErr))
			return
		}
		for k := range want {
			if !reflect.DeepEqual(want[k], o.jsonVals[k]) {
				rep.miss("msg-bytes", id, fmt.Sprintf("wsjson value %d: got %.40v want %.40v", k+1, o.jsonVals[k], want[k]))
				return
			}
		}
	case "netconn":
		var whole []byte
		mismatch := false
		for _, e := range exp.Msgs {
			if e.O != "msg" {
				continue
			}
			if e.T != typName(ncType) {
				mismatch = true // the adapter fails at a message of the other type
				break
			}
			whole = append(whole, cs.msgBytes(ls, e.Fr)...)
		}
		allowed := whole
		if !mismatch && len(exp.Partial) > 0 && exp.T == typName(ncType) {
			allowed = append(append([]byte(nil), whole...), cs.msgBytes(ls, exp.Partial)...)
		}
		if len(o.stream) < len(whole) || !bytes.Equal(o.stream[:len(whole)], whole) {
			rep.miss("msg-missing", id, fmt.Sprintf("NetConn handed %d bytes %.40q; the complete messages are %d bytes %.40q; err=%v", len(o.stream), o.stream, len(whole), whole, o.finalErr))
			return
		}
		if !bytes.HasPrefix(allowed, o.stream) {
			rep.miss("partial-not-prefix", id, fmt.Sprintf("NetConn handed %.60q, not a prefix of %.60q", o.stream, allowed))
			return
		}
		if o.finalErr == io.EOF {
			rep.miss("clean-end-of-partial-message", id, "NetConn.Read reported io.EOF although the transport ended without a close frame")
			return
		}
	}
}

type finBody struct {
	fin  bool
	body string
}

func finBodies(api string) []finBody {
	if api == "wsjson" {
		return []finBody{{false, "json"}, {false, "jsonpad"}}
	}
	return []finBody{{false, ""}, {true, ""}}
}

func checkCut(rep *Report, id caseID, ls []letter, exp *cutExp, cs *concStream, o *recvObs, delivered int) {
	if o.panicked != "" {
		rep.miss("panic", id, o.panicked)
		return
	}
	if o.pending {
		rep.miss("pending", id, "reader did not finish within 8s")
		return
	}
	if id.V.API == "wsjson" || id.V.API == "netconn" {
		checkCutAdapters(rep, id, ls, exp, cs, o, id.ncType)
		return
	}
	expRd := append(append([]rdObs(nil), exp.Msgs...), rdObs{O: "cut", Acc: exp.Partial})
	if !checkMsgs(rep, id, cs, ls, expRd, o) {
		return
	}
	if o.finalErr == nil {
		rep.miss("no-final-error", id, "reader loop ended without error")
		return
	}
	if len(o.partial) > 0 {
		want := cs.msgBytes(ls, exp.Partial)
		if len(exp.Partial) == 0 || len(o.partial) > len(want) || string(want[:len(o.partial)]) != string(o.partial) {
			rep.miss("partial-not-prefix", id, fmt.Sprintf("handed %.60q is not a prefix of %.60q", o.partial, want))
			return
		}
		if mi := cs.frames[exp.Partial[0]-1].msg; !(mi >= 0 && cs.msgs[mi].comp) && len(o.partial) > delivered {
			rep.miss("partial-longer-than-received", id, fmt.Sprintf("handed %d bytes, only %d payload bytes were received", len(o.partial), delivered))
			return
		}
		if exp.T != "none" && typName(o.partialTyp) != exp.T {
			rep.miss("partial-type", id, fmt.Sprintf("type %s want %s", typName(o.partialTyp), exp.T))
			return
		}
	}
	checkWire(rep, id, cs, ls, exp.Wire, o, false)
}

func init() {
	families["cut"] = func(args []string) error {
		fs := flag.NewFlagSet("cut", flag.ExitOnError)
		lettersPath := fs.String("letters", "", "letters.ndjson")
		rowsOff := fs.String("rows-off", "", "C04 rows without permessage-deflate")
		rowsOn := fs.String("rows-on", "", "C04 rows with permessage-deflate")
		seed := fs.Int64("seed", 1, "seed")
		bufs := fs.String("bufs", "1,512", "read buffer sizes")
		apis := fs.String("apis", "reader,read", "APIs")
		modesOn := fs.String("modes-on", "ct", "modes for rows-on")
		chunks := fs.String("chunks", "whole", "chunkings")
		stride := fs.Int("stride", 1, "use every stride-th row")
		scalesFlag := fs.String("scales", "0,200,66000", "payload sizes of data frames: 0 = the letters' own 5 bytes; 200 = 16-bit length; 66000 = 64-bit length")
		recvTrace := fs.String("recv-trace", "", "output NDJSON of the hook events of every k-th connection, for TraceRecv")
		traceEvery := fs.Int("trace-every", 50, "k")
		fs.Parse(args)
		setupRecvTrace(*recvTrace, *traceEvery)
		var scales []int
		for _, x := range splitComma(*scalesFlag) {
			var n int
			fmt.Sscan(x, &n)
			scales = append(scales, n)
		}
		lm, err := loadLetters(*lettersPath)
		if err != nil {
			return err
		}
		rep := newReport("cut")
		var evals, rows int64
		classes := map[string]bool{}
		var cmu sync.Mutex
		jobs := make(chan func(*rand.Rand), 256)
		done := make(chan struct{})
		go func() { parallel(runtime.GOMAXPROCS(0), jobs, *seed); close(done) }()
		injected := errors.New("injected transport failure")
		feed := func(path string, modes []string) error {
			if path == "" {
				return nil
			}
			k := 0
			return readNDJSON(path, func(b []byte) error {
				k++
				if (k+int(*seed))%*stride != 0 {
					return nil
				}
				row := &c04Row{}
				if err := json.Unmarshal(b, row); err != nil {
					return err
				}
				atomic.AddInt64(&rows, 1)
				ls := lettersOf(lm, row.Names)
				for _, client := range []bool{false, true} {
					for _, mode := range modes {
						for _, ch := range splitComma(*chunks) {
							for _, bs := range splitComma(*bufs) {
								var rb int
								fmt.Sscan(bs, &rb)
								for _, api := range splitComma(*apis) {
									adapter := api == "wsjson" || api == "netconn"
									for _, scale := range scales {
										if scale > 0 && (rb == 1 || k%3 != 0 || adapter) {
											continue // large frames: every third stream, not with 1-byte reads
										}
										if adapter && (ch != "whole" || api == "wsjson" && rb != 512 || api == "netconn" && rb != 1 && rb != 7 && rb != 512) {
											continue
										}
										for _, fb := range finBodies(api) {
											fin, body := fb.fin, fb.body
											// fin: the sender ends the DEFLATE stream of every compressed message with a BFINAL=1 block, so
											// that the inflater is done before the last frame (e.g. an empty final fragment) has arrived
											if fin && (mode == "off" || !hasComp(ls) || scale > 0 || api != "reader" && api != "netconn") {
												continue
											}
											v := variant{Client: client, Mode: mode, Chunk: ch, ReadBuf: rb, API: api, Scale: scale, Final: fin, Body: body}
											ncType := websocket.MessageBinary
											for _, l := range ls {
												if l.Op == 1 || l.Op == 2 {
													ncType = websocket.MessageType(l.Op)
													break
												}
											}
											ls := ls
											if scale > 0 {
												ls = lsScaled(ls, scale)
											}
											cs := concretise(ls, v, *seed)
											// frame layout
											ends := make([]int, len(cs.frames)+1)
											pstart := make([]int, len(cs.frames)+1)
											off := 0
											for j, f := range cs.frames {
												pstart[j+1] = off + f.hdrLen
												off += len(f.bytes)
												ends[j+1] = off
											}
											// with large frames only the offsets around each header and payload edge, plus a few inside
											want := map[int]bool{}
											if scale > 0 {
												for j := range cs.frames {
													for d := 0; d <= cs.frames[j].hdrLen+2; d++ {
														want[ends[j]+d] = true
													}
													want[ends[j+1]-1], want[ends[j+1]-2] = true, true
													if span := ends[j+1] - pstart[j+1]; span > 8 {
														want[pstart[j+1]+span/2], want[pstart[j+1]+span/3] = true, true
													}
												}
												want[len(cs.bytes)] = true
											}
											for cut := 0; cut <= len(cs.bytes); cut++ {
												if scale > 0 && !want[cut] {
													continue
												}
												kc := 0
												for kc < len(cs.frames) && ends[kc+1] <= cut {
													kc++
												}
												where := "boundary"
												delivered := 0
												if cut != ends[kc] {
													if cut < pstart[kc+1] {
														where = "header"
													} else {
														where = "payload"
													}
												}
												var exp *cutExp
												switch where {
												case "boundary":
													exp = &row.Cuts[kc].Boundary
												case "header":
													exp = &row.Cuts[kc].Header
												default:
													exp = &row.Cuts[kc].Payload
												}
												for _, fi := range exp.Partial {
													if fi <= kc {
														delivered += len(cs.frames[fi-1].bytes) - cs.frames[fi-1].hdrLen
													} else {
														delivered += cut - pstart[kc+1]
													}
												}
												for _, endErr := range []error{nil, injected} {
													id := caseID{Names: row.Names, V: v, Seed: *seed, Cut: cut, CutKind: where, EndErr: endErr != nil, ncType: ncType}
													cs, exp, endErr, delivered := cs, exp, endErr, delivered
													jobs <- func(rng *rand.Rand) {
														rc := recvCfg{v: v, sent: cs.frames, stream: cs.bytes, cutAt: id.Cut, endErr: endErr, ncType: id.ncType}
														if v.Scale > 0 {
															unlimited := int64(-1)
															rc.limit = &unlimited
														}
														o := runRecv(rc, rng)
														checkCut(rep, id, ls, exp, &cs, &o, delivered)
														atomic.AddInt64(&evals, 1)
														if id.Cut > 3 {
															rep.sample(id)
														}
													}
												}
												cmu.Lock()
												classes[fmt.Sprint(row.Names, kc, where, scale)] = true
												cmu.Unlock()
											}
										}
									}
								}
							}
						}
					}
				}
				return nil
			})
		}
		if err := feed(*rowsOff, []string{"off"}); err != nil {
			return err
		}
		if err := feed(*rowsOn, splitComma(*modesOn)); err != nil {
			return err
		}
		close(jobs)
		<-done
		rep.Evaluations, rep.Rows, rep.Distinct = evals, rows, int64(len(classes))
		if err := finishRecvTrace(*recvTrace, rep); err != nil {
			return err
		}
		rep.print()
		return nil
	}
}

var _ = ws.OpText
