package main

import (
	"bytes"
	"context"
	"encoding/json"
	"errors"
	"flag"
	"fmt"
	"io"
	"math/rand"
	"os"
	"os/exec"
	"runtime"
	"strings"
	"sync/atomic"
	"time"

	"nhooyr.io/websocket"
	"verifharness/ws"
)

// ---- family: limit (C08) ----

type limitStep struct {
	Set   bool  `json:"set"`
	Limit int64 `json:"limit"`
	Frags []int `json:"frags"`
	Comp  bool  `json:"comp"`
	Final bool  `json:"final"` // the DEFLATE stream of the message ends with a BFINAL=1 block
	// Mid: after MidAfter bytes of the message have been handed over the application calls SetReadLimit(MidLimit)
	Mid      bool  `json:"mid"`
	MidAfter int   `json:"midAfter"`
	MidLimit int64 `json:"midLimit"`
	Exp   struct {
		O         string `json:"o"`
		N         int    `json:"n"`
		MaxHanded int    `json:"maxHanded"`
		Close     int    `json:"close"`
	} `json:"exp"`
}

type limitRow struct {
	Prog []limitStep `json:"prog"`
}

type limitCase struct {
	Row     limitRow `json:"row"`
	Client  bool     `json:"client"`
	Mode    string   `json:"mode"`
	ReadBuf int      `json:"readbuf"`
	Seed    int64    `json:"seed"`
}

func limitPlain(seed int64, step, size int, comp bool) []byte {
	if !comp {
		return prf(seed, step, size)
	}
	// compressible but not constant: short repeating unit
	unit := prf(seed, step, 13)
	b := make([]byte, size)
	for i := range b {
		b[i] = unit[i%len(unit)]
	}
	return b
}

func buildMsgFrames(plain []byte, frags []int, comp, final bool, peerMasks bool, defl *ws.Deflater, rng *rand.Rand) []byte {
	var out []byte
	wirePayload := plain
	if comp && final {
		wirePayload = ws.CompressFinal(plain)
	} else if comp {
		wirePayload = defl.Compress(plain)
	}
	total := 0
	for _, f := range frags {
		total += f
	}
	pos := 0
	acc := 0
	for i, f := range frags {
		acc += f
		end := len(wirePayload)
		if i < len(frags)-1 {
			if total > 0 {
				end = int(int64(len(wirePayload)) * int64(acc) / int64(total))
			} else {
				end = 0
			}
			if !comp {
				end = acc
			}
		}
		fr := ws.Frame{Fin: i == len(frags)-1, Op: ws.OpCont, Masked: peerMasks, Payload: wirePayload[pos:end]}
		if i == 0 {
			fr.Op = ws.OpBin
			fr.Rsv1 = comp
		}
		if peerMasks {
			rng.Read(fr.Key[:])
		}
		out = append(out, fr.Encode()...)
		pos = end
	}
	return out
}

func runLimitCase(rep *Report, lc limitCase, rng *rand.Rand) {
	mode := ws.Mode(lc.Mode)
	c2s, s2c := mode.Takeover()
	takeover := c2s
	if lc.Client {
		takeover = s2c
	}
	defl := &ws.Deflater{Takeover: takeover, Level: 1}
	var stream []byte
	var plains [][]byte
	for i, st := range lc.Row.Prog {
		size := 0
		for _, f := range st.Frags {
			size += f
		}
		p := limitPlain(lc.Seed, i, size, st.Comp)
		plains = append(plains, p)
		stream = append(stream, buildMsgFrames(p, st.Frags, st.Comp && mode.Flate(), st.Final && mode.Flate(), !lc.Client, defl, rng)...)
	}
	cl := ws.Frame{Fin: true, Op: ws.OpClose, Masked: !lc.Client, Payload: ws.ClosePayload(1000, "done")}
	stream = append(stream, cl.Encode()...)

	c, raw, err := ws.NewConn(lc.Client, mode, 0)
	if err != nil {
		rep.miss("handshake", lc, err.Error())
		return
	}
	defer c.CloseNow()
	raw.Out.Write(stream)
	raw.Out.CloseWrite(nil)
	ctx, cancel := context.WithTimeout(context.Background(), 20*time.Second)
	defer cancel()
	buf := make([]byte, lc.ReadBuf)
	failed := false
	var panicked string
	func() {
		defer func() {
			if r := recover(); r != nil {
				panicked = fmt.Sprint(r)
			}
		}()
		for i, st := range lc.Row.Prog {
			if st.Set {
				c.SetReadLimit(st.Limit)
			}
			_, r, err := c.Reader(ctx)
			if err != nil {
				rep.miss("limit-reader-error", lc, fmt.Sprintf("step %d: Reader: %v", i, err))
				failed = true
				return
			}
			handed := 0
			ok := true
			var rerr error
			midDone := !st.Mid
			for {
				b := buf
				if !midDone && st.MidAfter-handed < len(b) {
					b = b[:st.MidAfter-handed]
				}
				n, err := r.Read(b)
				if n > 0 {
					if handed+n > len(plains[i]) || !bytes.Equal(b[:n], plains[i][handed:handed+n]) {
						ok = false
					}
					handed += n
				}
				if !midDone && handed >= st.MidAfter {
					midDone = true
					c.SetReadLimit(st.MidLimit)
				}
				if err != nil {
					rerr = err
					break
				}
			}
			if !ok {
				rep.miss("limit-bytes-not-prefix", lc, fmt.Sprintf("step %d: handed bytes are not a prefix of the message", i))
				failed = true
				return
			}
			switch st.Exp.O {
			case "open": // a limit changed under the message, and the two limits disagree about it: nothing further is demanded
				failed = true
				return
			case "deliver":
				if rerr != io.EOF || handed != len(plains[i]) {
					rep.miss("limit-message-within-limit-not-delivered", lc, fmt.Sprintf("step %d: size %d limit %d: handed %d err %v", i, len(plains[i]), st.Limit, handed, rerr))
					failed = true
					return
				}
			case "tooBig":
				if rerr == io.EOF {
					rep.miss("limit-oversize-message-reported-complete", lc, fmt.Sprintf("step %d: size %d limit %d handed %d", i, len(plains[i]), st.Limit, handed))
					failed = true
					return
				}
				if handed > st.Exp.MaxHanded {
					rep.miss("limit-handed-more-than-limit-plus-one", lc, fmt.Sprintf("step %d: handed %d > %d", i, handed, st.Exp.MaxHanded))
					failed = true
					return
				}
				c.CloseNow()
				fsW, _, _ := ws.DecodeAll(raw.In.Snapshot())
				found := false
				for _, f := range fsW {
					if f.Op == ws.OpClose && len(f.Payload) >= 2 && int(f.Payload[0])<<8|int(f.Payload[1]) == st.Exp.Close {
						found = true
					}
				}
				if !found {
					rep.miss("limit-no-1009-close-frame", lc, fmt.Sprintf("step %d: frames written: %d", i, len(fsW)))
				}
				failed = true // program ends here by design
				return
			}
		}
	}()
	if panicked != "" {
		rep.miss("panic", lc, panicked)
		return
	}
	if ctx.Err() != nil {
		rep.miss("pending", lc, "did not finish within 20s")
		return
	}
	if failed {
		return
	}
	// all delivered: the stream must still be in sync -> the peer's Close is seen
	_, _, err = c.Reader(ctx)
	var ce websocket.CloseError
	if !errors.As(err, &ce) || ce.Code != 1000 || ce.Reason != "done" {
		rep.miss("limit-stream-out-of-sync", lc, fmt.Sprintf("after all messages: %v", err))
	}
}

type allocRow struct {
	Kind     string `json:"kind"`
	Declared string `json:"declared"`
	Actual   int    `json:"actual"`
	Size     int    `json:"size"`
	Limit    int64  `json:"limit"`
	Exp      struct {
		O         string `json:"o"`
		MaxHanded int    `json:"maxHanded"`
		N         int    `json:"n"`
	} `json:"exp"`
}

type allocCase struct {
	Row    allocRow `json:"row"`
	Client bool     `json:"client"`
	API    string   `json:"api"` // reader | read
}

const allocSlack = 512 << 10 // fixed overhead allowed per receive, independent of declared length / ratio

func runAllocCase(rep *Report, ac allocCase, rng *rand.Rand) (alloc uint64) {
	mode := ws.Mode("off")
	var stream []byte
	peerMasks := !ac.Client
	switch ac.Row.Kind {
	case "declared":
		var d uint64
		switch ac.Row.Declared {
		case "2p31":
			d = 1 << 31
		case "2p40":
			d = 1 << 40
		default:
			d = 1<<63 - 1
		}
		f := ws.Frame{Fin: true, Op: ws.OpBin, Masked: peerMasks, LenOverride: &d, Payload: bytes.Repeat([]byte{'x'}, ac.Row.Actual)}
		stream = f.Encode()
	case "bomb":
		mode = "nct"
		defl := &ws.Deflater{Level: 9}
		z := defl.Compress(make([]byte, ac.Row.Size))
		f := ws.Frame{Fin: true, Rsv1: true, Op: ws.OpBin, Masked: peerMasks, Payload: z}
		stream = f.Encode()
	}
	c, raw, err := ws.NewConn(ac.Client, mode, 0)
	if err != nil {
		rep.miss("handshake", ac, err.Error())
		return
	}
	defer c.CloseNow()
	raw.Out.Write(stream)
	raw.Out.CloseWrite(nil)
	c.SetReadLimit(ac.Row.Limit)
	ctx, cancel := context.WithTimeout(context.Background(), 30*time.Second)
	defer cancel()
	buf := make([]byte, 4096)
	var m0, m1 runtime.MemStats
	runtime.GC()
	runtime.ReadMemStats(&m0)
	handed := 0
	var rerr error
	panicked := ""
	func() {
		defer func() {
			if r := recover(); r != nil {
				panicked = fmt.Sprint(r)
			}
		}()
		if ac.API == "read" {
			_, b, err := c.Read(ctx)
			handed, rerr = len(b), err
			if err == nil {
				rerr = io.EOF
			}
			if cap(b) > len(b)+allocSlack {
				rep.miss("memory-not-bounded-by-delivered-bytes", ac, fmt.Sprintf("Read returned %d bytes in a buffer of capacity %d", len(b), cap(b)))
			}
			return
		}
		_, r, err := c.Reader(ctx)
		if err != nil {
			rerr = err
			return
		}
		for {
			n, err := r.Read(buf)
			handed += n
			if err != nil {
				rerr = err
				break
			}
		}
	}()
	if panicked != "" {
		rep.miss("panic", ac, panicked)
		return
	}
	runtime.ReadMemStats(&m1)
	alloc = m1.TotalAlloc - m0.TotalAlloc
	if ac.Row.Exp.O == "tooBig" {
		// the peer is told why: a Close frame with status 1009, whatever length the oversized frame declared
		c.CloseNow()
		fs, _, _ := ws.DecodeAll(raw.In.Snapshot())
		told := false
		for _, f := range fs {
			if f.Op == ws.OpClose && len(f.Payload) >= 2 && int(f.Payload[0])<<8|int(f.Payload[1]) == 1009 {
				told = true
			}
		}
		if !told {
			rep.miss("limit-no-1009-close-frame", ac, fmt.Sprintf("read failed with %v; frames written: %d", rerr, len(fs)))
		}
	}
	switch ac.Row.Exp.O {
	case "fail", "tooBig":
		if rerr == io.EOF || rerr == nil {
			rep.miss("alloc-case-reported-complete", ac, fmt.Sprintf("handed %d", handed))
		}
		if handed > ac.Row.Exp.MaxHanded {
			rep.miss("alloc-case-handed-too-much", ac, fmt.Sprintf("handed %d > %d", handed, ac.Row.Exp.MaxHanded))
		}
	case "deliver":
		if rerr != io.EOF || handed != ac.Row.Exp.N {
			rep.miss("alloc-case-not-delivered", ac, fmt.Sprintf("handed %d err %v", handed, rerr))
		}
	}
	if alloc > uint64(allocSlack)+uint64(handed) {
		rep.miss("memory-not-bounded-by-delivered-bytes", ac, fmt.Sprintf("allocated %d bytes while handing over %d", alloc, handed))
	}
	return
}

func runAllocChild(rep *Report, ac allocCase) uint64 {
	js, _ := json.Marshal(ac)
	cmd := exec.Command(os.Args[0], "limit-alloc-one", "-case", string(js))
	var out, errb bytes.Buffer
	cmd.Stdout, cmd.Stderr = &out, &errb
	err := cmd.Run()
	if err != nil {
		first := errb.String()
		if i := strings.IndexByte(first, '\n'); i > 0 {
			first = first[:i]
		}
		sig := "memory-not-bounded-by-delivered-bytes"
		if !strings.Contains(errb.String(), "out of memory") && !strings.Contains(errb.String(), "cannot allocate") {
			sig = "panic"
		}
		rep.miss(sig, ac, "the receive killed its process: "+first)
		return 0
	}
	var child struct {
		Sigs       map[string]int         `json:"sigs"`
		Mismatches []Mismatch             `json:"mismatches"`
		Extra      map[string]interface{} `json:"extra"`
	}
	if json.Unmarshal(bytes.TrimSpace(out.Bytes()), &child) != nil {
		rep.miss("row-unreadable", ac, "child produced no report")
		return 0
	}
	for _, m := range child.Mismatches {
		rep.miss(m.Sig, ac, m.Detail)
	}
	if v, ok := child.Extra["alloc"].(float64); ok {
		return uint64(v)
	}
	return 0
}

func init() {
	families["limit-alloc-one"] = func(args []string) error {
		fs := flag.NewFlagSet("limit-alloc-one", flag.ExitOnError)
		cs := fs.String("case", "", "allocCase JSON")
		fs.Parse(args)
		var ac allocCase
		if err := json.Unmarshal([]byte(*cs), &ac); err != nil {
			return err
		}
		rep := newReport("limit")
		a := runAllocCase(rep, ac, rand.New(rand.NewSource(1)))
		rep.Extra["alloc"] = a
		rep.print()
		return nil
	}
	families["limit"] = func(args []string) error {
		fs := flag.NewFlagSet("limit", flag.ExitOnError)
		rowsPath := fs.String("rows", "", "C08 rows")
		allocPath := fs.String("alloc-rows", "", "C08 allocation rows")
		seed := fs.Int64("seed", 1, "seed")
		stride := fs.Int("stride", 1, "use every stride-th row")
		recvTrace := fs.String("recv-trace", "", "output NDJSON of the hook events of every k-th connection, for TraceRecv")
		traceEvery := fs.Int("trace-every", 3, "k")
		fs.Parse(args)
		setupRecvTrace(*recvTrace, *traceEvery)
		rep := newReport("limit")
		var evals, rows int64
		distinct := map[string]bool{}
		jobs := make(chan func(*rand.Rand), 64)
		done := make(chan struct{})
		go func() { parallel(runtime.GOMAXPROCS(0), jobs, *seed); close(done) }()
		k := 0
		err := readNDJSON(*rowsPath, func(b []byte) error {
			k++
			if (k+int(*seed))%*stride != 0 {
				return nil
			}
			var row limitRow
			if err := json.Unmarshal(b, &row); err != nil {
				return err
			}
			rows++
			distinct[string(b)] = true
			anyComp := false
			for _, s := range row.Prog {
				anyComp = anyComp || s.Comp
			}
			modes := []string{"off"}
			if anyComp {
				modes = []string{"ct", "nct"}
			}
			for _, client := range []bool{false, true} {
				for _, m := range modes {
					for _, rb := range []int{7, 4096, 70000} {
						lc := limitCase{Row: row, Client: client, Mode: m, ReadBuf: rb, Seed: *seed}
						jobs <- func(rng *rand.Rand) {
							runLimitCase(rep, lc, rng)
							atomic.AddInt64(&evals, 1)
							if len(lc.Row.Prog) > 1 {
								rep.sample(lc)
							}
						}
					}
				}
			}
			return nil
		})
		close(jobs)
		<-done
		if err != nil {
			return err
		}
		// allocation clause: sequential, so that TotalAlloc deltas are attributable
		var maxAlloc uint64
		if *allocPath != "" {
			_ = rand.Int
			err = readNDJSON(*allocPath, func(b []byte) error {
				var row allocRow
				if err := json.Unmarshal(b, &row); err != nil {
					return err
				}
				rows++
				distinct[string(b)] = true
				for _, client := range []bool{false, true} {
					for _, api := range []string{"reader", "read"} {
						if api == "read" && row.Kind == "bomb" && row.Limit < 0 {
							continue // Conn.Read must buffer what it delivers: an unlimited bomb is delivered, not a finding
						}
						ac := allocCase{Row: row, Client: client, API: api}
						// each case in a child process: an allocation driven by a declared length can exhaust memory,
						// which is a fatal (unrecoverable) runtime error and must be attributed to the case, not kill the campaign
						a := runAllocChild(rep, ac)
						over := int64(a)
						if over > int64(maxAlloc) {
							maxAlloc = uint64(over)
						}
						evals++
					}
				}
				return nil
			})
			if err != nil {
				return err
			}
		}
		rep.Extra["max_alloc_bytes_in_alloc_phase"] = maxAlloc
		rep.Evaluations, rep.Rows, rep.Distinct = evals, rows, int64(len(distinct))
		if err := finishRecvTrace(*recvTrace, rep); err != nil {
			return err
		}
		rep.print()
		return nil
	}
}
