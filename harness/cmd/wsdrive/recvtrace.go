package main

import (
	"sync"
	"sync/atomic"

	"nhooyr.io/websocket"
	"verifharness/ws"
)

// Sampled hook traces of the replay campaigns (recv, cut, limit): every k-th connection's events are kept and
// written per connection (TraceReset between) for TraceRecv.tla, which replays them through WSRecv's decoder.

var recvTracer *ws.Tracer

const maxEventsPerConn = 4000

// maxEventsTotal bounds the whole sample: once reached no further connection is traced (the campaign itself goes on).
const maxEventsTotal = 1500000

var recvTotal int64

var recvCount, recvOverflow, recvAdmitted, recvRefused sync.Map

func setupRecvTrace(path string, every int) {
	if path == "" {
		return
	}
	if every < 1 {
		every = 1
	}
	k := int64(every)
	// a connection that produces more than maxEventsPerConn events (megabytes read through a 7-byte buffer) is dropped
	// from the sample as a whole and stops being traced: the campaign's timing must not depend on the tracer
	// a connection is admitted to the sample by its first library event (ConnNew) or not at all: a connection must never be
	// traced from the middle (its negotiated extension and role come with ConnNew)
	websocket.VerifKeepConn = func(conn int64) bool {
		if conn%k != 0 {
			return false
		}
		if _, ok := recvAdmitted.Load(conn); !ok {
			if _, no := recvRefused.Load(conn); no {
				return false
			}
			if atomic.LoadInt64(&recvTotal) > maxEventsTotal {
				recvRefused.Store(conn, true)
				return false
			}
			recvAdmitted.Store(conn, true)
		}
		_, over := recvOverflow.Load(conn)
		return !over
	}
	recvTracer = &ws.Tracer{Keep: func(e websocket.VerifEvent) bool {
		if _, ok := recvAdmitted.Load(e.Conn); !ok {
			return false // events the harness logs for a connection that is not in the sample
		}
		atomic.AddInt64(&recvTotal, 1)
		v, _ := recvCount.LoadOrStore(e.Conn, new(int64))
		if atomic.AddInt64(v.(*int64), 1) > maxEventsPerConn {
			recvOverflow.Store(e.Conn, true)
			return false
		}
		return true
	}}
	recvTracer.Install()
}

func finishRecvTrace(path string, rep *Report) error {
	if path == "" || recvTracer == nil {
		return nil
	}
	evs := recvTracer.Take()
	byConn := map[int64][]websocket.VerifEvent{}
	var order []int64
	for _, e := range evs {
		if _, ok := byConn[e.Conn]; !ok {
			order = append(order, e.Conn)
		}
		byConn[e.Conn] = append(byConn[e.Conn], e)
	}
	var all []websocket.VerifEvent
	dropped := 0
	for _, id := range order {
		if _, over := recvOverflow.Load(id); over {
			dropped++
			continue
		}
		all = append(all, websocket.VerifEvent{Conn: id, Ev: "TraceReset"})
		all = append(all, byConn[id]...)
	}
	rep.Extra["recv_trace_connections"] = len(order) - dropped
	rep.Extra["recv_trace_dropped_long_connections"] = dropped
	rep.Extra["recv_trace_events"] = len(all)
	return ws.WriteNDJSON(path, all)
}
