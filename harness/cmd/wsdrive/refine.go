package main

import (
	"context"
	"flag"
	"math/rand"
	"os"
	"sync"
	"time"

	"nhooyr.io/websocket"
	"verifharness/ws"
)

// ---- family: refine ----
// Executions of exactly the scenario WSConn.quick.cfg model-checks: one streaming writer (one chunk, then
// Close: two frames), one Ping, one Read, one Close, and a peer that may answer the ping, close on its own
// and echo the Close.  Each actor announces itself ("Actor" event) so that TraceRefine.tla can map goroutines
// to the processes of the specification and replay the hook events through WSConn's own actions.

type refineCfg struct {
	Seed      int64 `json:"seed"`
	Client    bool  `json:"client"`
	PeerPong  bool  `json:"peerpong"`
	PeerClose bool  `json:"peerclose"`
	PeerEcho  bool  `json:"peerecho"`
	CloseNow  bool  `json:"closenow"` // a fifth actor "N" calls CloseNow at a seeded moment (the model's Extra "N")
	// Ctx: the Writer's and the Ping's contexts are cancelled by the application at seeded moments -- before, inside or long after
	// the call (the model's CtxProcs = {A, P}); each cancellation is announced ("CtxCancel") before cancel() is called
	Ctx bool `json:"ctx"`
	// Second: a second writer "B" sends one message with Conn.Write (one frame, no writer lock) and contends with A for the message lock
	Second bool `json:"second"`
	// CloseRead: nobody calls Read; the application calls CloseRead, whose goroutine is the reader (the model's Extra "CR"); the
	// peer may send a data message, which makes that goroutine close the connection with 1008
	CloseRead bool `json:"closeread"`
	PeerData  bool `json:"peerdata"`
	// PeerPing: the peer sends one Ping at a seeded moment (the model's PeerMay "ping"): whoever reads it answers with a Pong
	PeerPing bool `json:"peerping,omitempty"`
	// Between (with Ctx): the application cancels the Writer's context itself, between the chunk it has written and Close --
	// the message is open, no frame is in flight, a second writer is queued behind the message lock
	Between bool `json:"between,omitempty"`
	// Stretch: the goroutine that logs this hook event on this connection is held there for StretchUS microseconds -- a window of a
	// few nanoseconds in the code (closeMu taken and the closed flag not yet raised, the flag raised and the transport not yet
	// closed, casClosing won and close() not yet entered ...) becomes wide enough for the other actors to run into it.  This only
	// chooses a schedule; what the execution then does is judged as always.
	Stretch   string `json:"stretch,omitempty"`
	StretchUS int    `json:"stretch_us,omitempty"`
}

var stretchPoints = []string{"CloseEnter", "ClosedPre", "ClosedPost", "CasClosingOK", "WgCloseMu", "RwcClosed", "CloseRcvd"}

func runRefine(cfg refineCfg, rep *Report) {
	rng := rand.New(rand.NewSource(cfg.Seed))
	c, raw, err := ws.NewConn(cfg.Client, "off", 0)
	if err != nil {
		return
	}
	ws.LogPeerScripted(c)
	if cfg.Stretch != "" {
		ws.Stretch(c, cfg.Stretch, time.Duration(cfg.StretchUS)*time.Microsecond)
		defer ws.Unstretch(c)
	}
	slow := time.Duration(0)
	if cfg.Ctx {
		// a narrow transport and a peer that takes its time: frames are in flight for a while, so that a cancellation can hit a
		// frame write (timeoutLoop firing on the armed context) and not only lock waits and the wait for the pong
		raw.In.Cap = 5
		slow = time.Duration(50+rng.Intn(250)) * time.Microsecond
	}
	var smu sync.Mutex
	send := func(f ws.Frame) {
		f.Masked = !cfg.Client
		f.Key = [4]byte{2, 7, 1, 8}
		smu.Lock()
		ws.LogPeerSent(c, f)
		raw.Out.Write(f.Encode())
		smu.Unlock()
	}
	closeSentByPeer := false
	peerDone := make(chan struct{})
	go func() {
		defer close(peerDone)
		var acc []byte
		tmp := make([]byte, 4096)
		for {
			n, err := raw.In.Read(tmp)
			acc = append(acc, tmp[:n]...)
			if slow > 0 {
				time.Sleep(slow)
			}
			for {
				f, k, e := ws.DecodeFrame(acc)
				if e != nil {
					break
				}
				acc = acc[k:]
				switch f.Op {
				case ws.OpPing:
					if cfg.PeerPong {
						send(ws.Frame{Fin: true, Op: ws.OpPong, Payload: f.Payload})
					}
				case ws.OpClose:
					smu.Lock()
					already := closeSentByPeer
					closeSentByPeer = true
					smu.Unlock()
					if cfg.PeerEcho && !already {
						send(ws.Frame{Fin: true, Op: ws.OpClose, Payload: f.Payload})
					}
				}
			}
			if err != nil {
				return
			}
		}
	}()
	if cfg.PeerData {
		d := time.Duration(rng.Intn(1500)) * time.Microsecond
		go func() {
			time.Sleep(d)
			send(ws.Frame{Fin: true, Op: ws.OpText, Payload: []byte("unexpected")})
		}()
	}
	if cfg.PeerPing {
		d := time.Duration(rng.Intn(1500)) * time.Microsecond
		go func() {
			time.Sleep(d)
			send(ws.Frame{Fin: true, Op: ws.OpPing, Payload: []byte("peer")})
		}()
	}
	if cfg.PeerClose {
		d := time.Duration(rng.Intn(1500)) * time.Microsecond
		go func() {
			time.Sleep(d)
			smu.Lock()
			already := closeSentByPeer
			closeSentByPeer = true
			smu.Unlock()
			if !already {
				send(ws.Frame{Fin: true, Op: ws.OpClose, Payload: ws.ClosePayload(1000, "")})
			}
		}()
	}
	bg := context.Background()
	var wg sync.WaitGroup
	actor := func(name string, delay time.Duration, fn func()) {
		wg.Add(1)
		go func() {
			defer wg.Done()
			websocket.VerifEmit(c, "Actor", name, 0, 0)
			time.Sleep(delay)
			fn()
		}()
	}
	us := func(n int) time.Duration { return time.Duration(rng.Intn(n)) * time.Microsecond }
	actx, acancel := context.WithCancel(bg)
	pctx, pcancel := context.WithCancel(bg)
	defer acancel()
	defer pcancel()
	if cfg.Ctx {
		da, dp, which := us(2500), us(2500), rng.Intn(4)
		wg.Add(1)
		go func() {
			defer wg.Done()
			websocket.VerifEmit(c, "Actor", "X", 0, 0)
			if which&1 != 0 && !cfg.Between {
				time.Sleep(da)
				websocket.VerifEmit(c, "CtxCancel", "A", 0, 0)
				acancel()
			}
			if which&2 != 0 {
				time.Sleep(dp)
				websocket.VerifEmit(c, "CtxCancel", "P", 0, 0)
				pcancel()
			}
		}()
	}
	actor("A", us(800), func() {
		w, err := c.Writer(actx, websocket.MessageText)
		if err != nil {
			return
		}
		if _, err := w.Write([]byte("one chunk")); err != nil {
			return
		}
		if cfg.Between {
			time.Sleep(us(300))
			websocket.VerifEmit(c, "CtxCancel", "A", 0, 0)
			acancel()
		}
		w.Close()
	})
	if cfg.Second {
		actor("B", us(800), func() { c.Write(bg, websocket.MessageBinary, []byte("B's message")) })
	}
	actor("P", us(800), func() { c.Ping(pctx) })
	if cfg.CloseRead {
		websocket.VerifEmit(c, "Scenario", "cr", 0, 0)
		c.CloseRead(bg)
	} else {
		actor("R", us(300), func() { c.Read(bg) })
	}
	kd := us(1500)
	if cfg.Between {
		kd += 1500 * time.Microsecond
	}
	actor("K", kd, func() { c.Close(websocket.StatusNormalClosure, "") })
	if cfg.CloseNow {
		actor("N", us(2500), func() { c.CloseNow() })
	}
	done := make(chan struct{})
	go func() { wg.Wait(); close(done) }()
	select {
	case <-done:
	case <-time.After(20 * time.Second):
		// the scenario did not finish by itself (e.g. the machine was suspended and every timer fired at once): what the harness
		// does from here on is not part of the scenario; TraceRefine stops replaying this connection at this line
		websocket.VerifEmit(c, "Aborted", "", 0, 0)
		// every actor's call is bounded (Close: 5 s + 5 s, everything else returns when the connection closes): 20 s later
		// something is stuck for good
		rep.miss("refine-scenario-calls-did-not-return", cfg, "actors still blocked after 20 s:\n"+libStacks())
	}
	within(5*time.Second, func() { c.CloseNow() })
	raw.Close()
	<-peerDone
}

func init() {
	families["refine"] = func(args []string) error {
		fs := flag.NewFlagSet("refine", flag.ExitOnError)
		n := fs.Int("n", 50, "executions")
		seed := fs.Int64("seed", 1, "seed")
		out := fs.String("conn-trace", "", "per-connection hook trace for TraceRefine")
		par := fs.Int("par", 8, "executions in flight")
		kind := fs.String("kind", "mix", "scenario: base | n (CloseNow actor) | ctx (cancelled contexts) | cr (CloseRead goroutine instead of Read) | mix")
		fs.Parse(args)
		rep := newReport("refine")
		tr := &ws.Tracer{}
		tr.Install()
		tr.Gate = ws.StretchGate
		sem := make(chan struct{}, *par)
		var wg sync.WaitGroup
		for i := 0; i < *n; i++ {
			rng := rand.New(rand.NewSource(*seed*7907 + int64(i)))
			cfg := refineCfg{Seed: *seed*7907 + int64(i), Client: rng.Intn(2) == 0, PeerPong: rng.Intn(4) != 0, PeerClose: rng.Intn(3) == 0, PeerEcho: rng.Intn(8) != 0, CloseNow: rng.Intn(3) == 0}
			if cfg.CloseNow && rng.Intn(2) == 0 {
				cfg.CloseNow, cfg.Ctx = false, true
			}
			cfg.Second = rng.Intn(2) == 0
			if !cfg.CloseNow && !cfg.Ctx && rng.Intn(3) == 0 {
				cfg.CloseRead, cfg.PeerData = true, rng.Intn(2) == 0
			}
			switch *kind {
			case "base":
				cfg.CloseNow, cfg.Ctx = false, false
			case "n":
				cfg.CloseNow, cfg.Ctx = true, false
			case "ctx":
				cfg.CloseNow, cfg.Ctx = false, true
				if rng.Intn(3) == 0 {
					cfg.Between, cfg.Second = true, true
				}
			case "cr":
				cfg.CloseNow, cfg.Ctx, cfg.CloseRead = false, false, true
				cfg.PeerData = rng.Intn(2) == 0
			}
			if *kind != "mix" && *kind != "cr" {
				cfg.CloseRead, cfg.PeerData = false, false
			}
			cfg.PeerPing = rng.Intn(3) == 0
			if rng.Intn(2) == 0 {
				cfg.Stretch, cfg.StretchUS = stretchPoints[rng.Intn(len(stretchPoints))], 100+rng.Intn(1500)
			}
			sem <- struct{}{}
			wg.Add(1)
			go func() {
				defer wg.Done()
				defer func() { <-sem }()
				runRefine(cfg, rep)
			}()
			rep.Evaluations++
			rep.sample(cfg)
		}
		wg.Wait()
		time.Sleep(20 * time.Millisecond)
		evs := tr.Take()
		byConn := map[int64][]websocket.VerifEvent{}
		var order []int64
		for _, e := range evs {
			if _, ok := byConn[e.Conn]; !ok {
				order = append(order, e.Conn)
			}
			byConn[e.Conn] = append(byConn[e.Conn], e)
		}
		if *out != "" {
			os.Remove(*out)
			var all []websocket.VerifEvent
			for _, id := range order {
				all = append(all, websocket.VerifEvent{Conn: id, Ev: "TraceReset"})
				all = append(all, byConn[id]...)
			}
			if err := ws.WriteNDJSON(*out, all); err != nil {
				return err
			}
			rep.Extra["events"] = len(all)
		}
		rep.Distinct = int64(*n)
		rep.print()
		return nil
	}
}
