package main

import (
	"bytes"
	"context"
	"encoding/json"
	"flag"
	"fmt"
	"math/rand"
	"os"
	"runtime"
	"sync"
	"sync/atomic"
	"time"

	"nhooyr.io/websocket"
	"verifharness/ws"
)

// ---- family: roundtrip (C01, C02) ----

type rtMsg struct {
	Type    string   `json:"type"`
	API     string   `json:"api"`
	Chunks  []string `json:"chunks"`
	Content string   `json:"content"`
}
type rtRow struct {
	CM        string  `json:"cm"`
	SM        string  `json:"sm"`
	Threshold string  `json:"threshold"`
	Msgs      []rtMsg `json:"msgs"`
	Agreed    struct {
		On   bool `json:"on"`
		Cnct bool `json:"cnct"`
		Snct bool `json:"snct"`
	} `json:"agreed"`
}
type rtCase struct {
	Row  rtRow  `json:"row"`
	Kind string `json:"kind"` // pair | rawclient | rawserver (library endpoint's role against a raw peer)
	Mode string `json:"mode,omitempty"`
	Seed int64  `json:"seed"`
	Huge bool   `json:"huge,omitempty"`
}

var boundarySizes = []int{125, 126, 127, 4095, 4096, 4097, 65535, 65536, 65537}

func chunkSize(class string, threshold int, rng *rand.Rand, huge bool) int {
	switch class {
	case "z":
		return 0
	case "s":
		if threshold <= 1 {
			return 0
		}
		return 1 + rng.Intn(threshold-1)
	case "t":
		return threshold
	case "l":
		return threshold + 1 + rng.Intn(3000)
	case "x":
		if huge {
			return 1<<20 + 1 + rng.Intn(5000)
		}
		return 32768 + 1 + rng.Intn(9000)
	case "b":
		return boundarySizes[rng.Intn(len(boundarySizes))]
	}
	return 1
}

func fillContent(class string, n int, prev []byte, rng *rand.Rand) []byte {
	b := make([]byte, n)
	switch class {
	case "rand":
		rng.Read(b)
		for i := range b {
			b[i] = 'A' + b[i]%50 // text-safe
		}
	case "zeros":
		for i := range b {
			b[i] = '0'
		}
	case "repeat":
		if len(prev) == 0 {
			prev = []byte("the quick brown fox jumps over the lazy dog 0123456789 ")
		}
		for i := range b {
			b[i] = prev[i%len(prev)]
		}
	}
	return b
}

type rtSent struct {
	typ  websocket.MessageType
	data []byte
}

func thresholdOf(class string, mode string) (opt int, eff int) {
	switch class {
	case "one":
		return 1, 1
	case "huge":
		return 1 << 22, 1 << 22
	}
	if mode == "nct" {
		return 0, 512
	}
	return 0, 128
}

// sendProgram writes the row's messages on c and returns what was sent; caller buffers are verified untouched.
func sendProgram(rep *Report, rc rtCase, c *websocket.Conn, effThreshold int, rng *rand.Rand, prev []byte) ([]rtSent, error) {
	ctx, cancel := context.WithTimeout(context.Background(), 20*time.Second)
	defer cancel()
	var out []rtSent
	for mi, m := range rc.Row.Msgs {
		typ := websocket.MessageText
		if m.Type == "bin" {
			typ = websocket.MessageBinary
		}
		var chunks [][]byte
		var whole []byte
		for _, cl := range m.Chunks {
			b := fillContent(m.Content, chunkSize(cl, effThreshold, rng, rc.Huge), prev, rng)
			chunks = append(chunks, b)
			whole = append(whole, b...)
		}
		if len(whole) > 0 {
			prev = whole
		}
		var err error
		if m.API == "write" {
			// the caller's buffer is write-protected for the duration of the call (ws.Lend): a store into it at
			// any moment faults, also one that is undone before the call returns
			ro, lent, lerr := ws.Lend(chunks[0])
			if lerr != nil {
				return out, lerr
			}
			if f := ws.WithFaults(func() { err = c.Write(ctx, typ, lent) }); f != "" {
				rep.miss("caller-buffer-written-during-call", rc, fmt.Sprintf("message %d (%d bytes): %s", mi, len(lent), f))
				err = fmt.Errorf("store into the caller's buffer")
			} else if !bytes.Equal(lent, chunks[0]) {
				rep.miss("caller-buffer-modified", rc, fmt.Sprintf("message %d", mi))
			}
			ro.Release()
		} else {
			w, werr := c.Writer(ctx, typ)
			err = werr
			if err == nil {
				for _, ch := range chunks {
					ro, lent, lerr := ws.Lend(ch)
					if lerr != nil {
						return out, lerr
					}
					if f := ws.WithFaults(func() { _, err = w.Write(lent) }); f != "" {
						rep.miss("caller-buffer-written-during-call", rc, fmt.Sprintf("message %d (chunk of %d bytes): %s", mi, len(lent), f))
						err = fmt.Errorf("store into the caller's buffer")
					} else if !bytes.Equal(lent, ch) {
						rep.miss("caller-buffer-modified", rc, fmt.Sprintf("message %d", mi))
					}
					ro.Release()
					if err != nil {
						break
					}
				}
				if err == nil {
					err = w.Close()
				}
			}
		}
		if err != nil {
			return out, fmt.Errorf("message %d: %w", mi, err)
		}
		out = append(out, rtSent{typ, whole})
	}
	return out, nil
}

func recvProgram(rep *Report, rc rtCase, c *websocket.Conn, sent []rtSent, dir string) bool {
	ctx, cancel := context.WithTimeout(context.Background(), 20*time.Second)
	defer cancel()
	for i, s := range sent {
		typ, b, err := c.Read(ctx)
		if err != nil {
			rep.miss("roundtrip-read-failed", rc, fmt.Sprintf("%s message %d (%d bytes): %v", dir, i, len(s.data), err))
			return false
		}
		if typ != s.typ {
			rep.miss("roundtrip-type-changed", rc, fmt.Sprintf("%s message %d", dir, i))
			return false
		}
		if !bytes.Equal(b, s.data) {
			rep.miss("roundtrip-payload-differs", rc, fmt.Sprintf("%s message %d: got %d bytes, sent %d", dir, i, len(b), len(s.data)))
			return false
		}
	}
	return true
}

// decodeTap reassembles the messages in a tapped byte stream with an independent decoder and
// returns TraceWire lines for TLC plus the reassembled messages.
func decodeTap(stream []byte, takeover bool) (lines []wireLine, msgs []rtSent, err error) {
	frames, rest, e := ws.DecodeAll(stream)
	if e != nil || len(rest) != 0 {
		return nil, nil, fmt.Errorf("tap undecodable: %v, %d bytes left", e, len(rest))
	}
	infl := &ws.Inflater{Takeover: takeover}
	var cur []byte
	var comp bool
	var typ websocket.MessageType
	for _, f := range frames {
		l := wireLine{Ev: "Frame", Hdr: hdrInts(f.RawHeader)}
		if f.Op == ws.OpClose && len(f.Payload) >= 2 {
			l.Code = int(f.Payload[0])<<8 | int(f.Payload[1])
		}
		if f.Op >= 8 {
			l.Pl = string(f.Payload)
		}
		lines = append(lines, l)
		if f.Op > 2 {
			continue
		}
		if f.Op != ws.OpCont {
			cur, comp, typ = nil, f.Rsv1, websocket.MessageType(f.Op)
		}
		cur = append(cur, f.Payload...)
		if f.Fin {
			plain := cur
			if comp {
				p2, e := infl.Decompress(cur)
				if e != nil {
					return lines, msgs, fmt.Errorf("independent inflate (takeover=%v) of message %d failed: %v", takeover, len(msgs), e)
				}
				plain = p2
			}
			msgs = append(msgs, rtSent{typ, plain})
			cur = nil
		}
	}
	return lines, msgs, nil
}

func checkTap(rep *Report, rc rtCase, dir string, stream []byte, takeover bool, sent []rtSent, role string, flate bool, wmu *sync.Mutex, wire *[]wireLine) {
	lines, msgs, err := decodeTap(stream, takeover)
	if err != nil {
		rep.miss("wire-not-decodable-by-independent-peer", rc, dir+": "+err.Error())
		return
	}
	if len(msgs) != len(sent) {
		rep.miss("wire-message-count", rc, fmt.Sprintf("%s: %d on the wire, %d written", dir, len(msgs), len(sent)))
		return
	}
	for i := range msgs {
		if msgs[i].typ != sent[i].typ || !bytes.Equal(msgs[i].data, sent[i].data) {
			rep.miss("wire-message-differs-from-written", rc, fmt.Sprintf("%s message %d", dir, i))
			return
		}
	}
	// the frame grammar is validated by TLC (TraceWire.tla); very long frame traces are sampled to keep that linear pass short
	wmu.Lock()
	if len(lines) <= 400 && len(*wire) < 400000 {
		*wire = append(*wire, wireLine{Ev: "WireReset", Role: role, Flate: flate})
		*wire = append(*wire, lines...)
	} else {
		wireSkipped++
	}
	wmu.Unlock()
}

func runRoundTrip(rep *Report, rc rtCase, wmu *sync.Mutex, wire *[]wireLine) {
	rng := rand.New(rand.NewSource(rc.Seed))
	switch rc.Kind {
	case "pair":
		copt, ceff := thresholdOf(rc.Row.Threshold, rc.Row.CM)
		sopt, seff := thresholdOf(rc.Row.Threshold, rc.Row.SM)
		var c2s, s2c bytes.Buffer
		var tmu sync.Mutex
		cl, sv, hdr, err := ws.Pair(&websocket.DialOptions{CompressionMode: modeOf(rc.Row.CM), CompressionThreshold: copt},
			&websocket.AcceptOptions{CompressionMode: modeOf(rc.Row.SM), CompressionThreshold: sopt},
			func(p []byte) { tmu.Lock(); c2s.Write(p); tmu.Unlock() }, func(p []byte) { tmu.Lock(); s2c.Write(p); tmu.Unlock() })
		if err != nil {
			rep.miss("handshake", rc, err.Error())
			return
		}
		defer cl.CloseNow()
		defer sv.CloseNow()
		on, cnct, snct, _ := parseExt(hdr.Get("Sec-WebSocket-Extensions"))
		if on != rc.Row.Agreed.On || (on && (cnct != rc.Row.Agreed.Cnct || snct != rc.Row.Agreed.Snct)) {
			rep.miss("pair-agreement-differs-from-specification", rc, hdr.Get("Sec-WebSocket-Extensions"))
			return
		}
		if !on { // thresholds are irrelevant without compression, but the effective value drives size classes
			ceff, seff = 128, 128
		} else {
			// the library derives its default threshold from the negotiated takeover of its own direction
			if rc.Row.Threshold == "default" {
				ceff, seff = 128, 128
				if cnct {
					ceff = 512
				}
				if snct {
					seff = 512
				}
			}
		}
		cl.SetReadLimit(-1)
		sv.SetReadLimit(-1)
		// client -> server
		type res struct {
			sent []rtSent
			err  error
		}
		ch := make(chan res, 1)
		go func() { s, e := sendProgram(rep, rc, cl, ceff, rng, nil); ch <- res{s, e} }()
		r1 := <-ch
		if r1.err != nil {
			rep.miss("roundtrip-write-failed", rc, "client: "+r1.err.Error())
			return
		}
		// reads happen after the writes returned: the in-memory transport is unbounded
		if !recvProgram(rep, rc, sv, r1.sent, "client->server") {
			return
		}
		rng2 := rand.New(rand.NewSource(rc.Seed + 7))
		s2, err := sendProgram(rep, rc, sv, seff, rng2, nil)
		if err != nil {
			rep.miss("roundtrip-write-failed", rc, "server: "+err.Error())
			return
		}
		if !recvProgram(rep, rc, cl, s2, "server->client") {
			return
		}
		tmu.Lock()
		a, b := append([]byte(nil), c2s.Bytes()...), append([]byte(nil), s2c.Bytes()...)
		tmu.Unlock()
		checkTap(rep, rc, "client->server", a, on && !cnct, r1.sent, "client", on, wmu, wire)
		checkTap(rep, rc, "server->client", b, on && !snct, s2, "server", on, wmu, wire)
	default:
		// library endpoint against a raw peer under an (possibly asymmetric) agreement obtained from a foreign offer/answer
		libClient := rc.Kind == "rawclient"
		opt, eff := thresholdOf(rc.Row.Threshold, "ct")
		mode := ws.Mode(rc.Mode)
		c, raw, err := ws.NewConn(libClient, mode, opt)
		if err != nil {
			rep.miss("handshake", rc, err.Error())
			return
		}
		defer c.CloseNow()
		c2sT, s2cT := mode.Takeover()
		tk := s2cT
		if libClient {
			tk = c2sT
		}
		if rc.Row.Threshold == "default" && mode.Flate() && !tk {
			eff = 512
		}
		sent, err := sendProgram(rep, rc, c, eff, rng, nil)
		if err != nil {
			rep.miss("roundtrip-write-failed", rc, err.Error())
			return
		}
		role := "server"
		if libClient {
			role = "client"
		}
		checkTap(rep, rc, "library->raw peer", raw.In.Snapshot(), mode.Flate() && tk, sent, role, mode.Flate(), wmu, wire)
	}
}

// unit-level replays (binding B) of trimLastFourBytesWriter and slidingWindow
type trimRow struct {
	Ops   []int `json:"ops"`
	Steps []struct {
		N    int   `json:"n"`
		Tail []int `json:"tail"`
		Out  []int `json:"out"`
	} `json:"steps"`
}
type winRow struct {
	Cap   int   `json:"cap"`
	Ops   []int `json:"ops"`
	Steps []struct {
		N   int   `json:"n"`
		Buf []int `json:"buf"`
	} `json:"steps"`
}

func posBytes(ps []int) []byte {
	b := make([]byte, len(ps))
	for i, p := range ps {
		b[i] = byte(p*37 + 11)
	}
	return b
}

func replayTrim(rep *Report, path string) (n int64, err error) {
	err = readNDJSON(path, func(b []byte) error {
		var row trimRow
		if err := json.Unmarshal(b, &row); err != nil {
			return err
		}
		n++
		var out bytes.Buffer
		tw := websocket.VerifNewTrimWriter(&out)
		pos := 0
		for si, st := range row.Steps {
			ps := make([]int, st.N)
			for i := range ps {
				pos++
				ps[i] = pos
			}
			before := out.Len()
			k, werr := tw.Write(posBytes(ps))
			if werr != nil || k != st.N {
				rep.miss("trim-writer-return-value", row.Ops, fmt.Sprintf("step %d: n=%d err=%v", si, k, werr))
				return nil
			}
			if !bytes.Equal(out.Bytes()[before:], posBytes(st.Out)) || !bytes.Equal(tw.Tail(), posBytes(st.Tail)) {
				rep.miss("trim-writer-differs-from-specification", row.Ops, fmt.Sprintf("step %d: emitted %x tail %x, expected %x / %x", si, out.Bytes()[before:], tw.Tail(), posBytes(st.Out), posBytes(st.Tail)))
				return nil
			}
		}
		return nil
	})
	return
}

func replayWindow(rep *Report, path string) (n int64, err error) {
	err = readNDJSON(path, func(b []byte) error {
		var row winRow
		if err := json.Unmarshal(b, &row); err != nil {
			return err
		}
		n++
		sw := websocket.VerifNewSlidingWindow(row.Cap)
		pos := 0
		for si, st := range row.Steps {
			ps := make([]int, st.N)
			for i := range ps {
				pos++
				ps[i] = pos
			}
			sw.Write(posBytes(ps))
			if !bytes.Equal(sw.Buf(), posBytes(st.Buf)) {
				rep.miss("sliding-window-differs-from-specification", row, fmt.Sprintf("step %d: %x expected %x", si, sw.Buf(), posBytes(st.Buf)))
				return nil
			}
		}
		return nil
	})
	return
}

func init() {
	families["roundtrip"] = func(args []string) error {
		fs := flag.NewFlagSet("roundtrip", flag.ExitOnError)
		rowsPath := fs.String("rows", "", "program rows")
		trim := fs.String("trim-rows", "", "trim writer behaviours")
		var wins multiFlag
		fs.Var(&wins, "window-rows", "sliding window behaviours (repeatable)")
		seed := fs.Int64("seed", 1, "seed")
		stride := fs.Int("stride", 1, "use every stride-th program row")
		kinds := fs.String("kinds", "pair,rawclient,rawserver", "which bindings to run")
		wireOut := fs.String("wire-trace", "", "output NDJSON for TraceWire")
		long := fs.Int("long", 4, "long-lived connections with hundreds of frames each")
		hugeEvery := fs.Int("huge-every", 0, "every n-th row uses >1 MiB for the x class (0 = never)")
		connTrace := fs.String("conn-trace", "", "output NDJSON of the hook events of every k-th connection (TraceSend, TraceRecv)")
		traceEvery := fs.Int("trace-every", 6, "k")
		fs.Parse(args)
		setupRecvTrace(*connTrace, *traceEvery)
		rep := newReport("roundtrip")
		var evals, rows int64
		if *trim != "" {
			n, err := replayTrim(rep, *trim)
			if err != nil {
				return err
			}
			evals += n
			rep.Extra["trim_behaviours"] = n
		}
		for _, w := range wins {
			n, err := replayWindow(rep, w)
			if err != nil {
				return err
			}
			evals += n
			rep.Extra[fmt.Sprintf("window_behaviours_%d", len(rep.Extra))] = n
		}
		var wmu sync.Mutex
		var wire []wireLine
		jobs := make(chan func(*rand.Rand), 64)
		done := make(chan struct{})
		go func() { parallel(runtime.GOMAXPROCS(0), jobs, *seed); close(done) }()
		k := 0
		var ferr error
		if *rowsPath != "" {
			ferr = readNDJSON(*rowsPath, func(b []byte) error {
				k++
				if (k+int(*seed))%*stride != 0 {
					return nil
				}
				var row rtRow
				if err := json.Unmarshal(b, &row); err != nil {
					return err
				}
				rows++
				huge := *hugeEvery > 0 && k%*hugeEvery == 0
				for _, kind := range splitComma(*kinds) {
					var cases []rtCase
					if kind == "pair" {
						cases = []rtCase{{Row: row, Kind: kind, Seed: *seed*1000 + int64(k), Huge: huge}}
					} else {
						// raw-peer bindings: the row's messages under every agreement incl. the asymmetric ones; only rows with cm=sm keep the count down
						if row.CM != row.SM {
							continue
						}
						modes := []string{"off"}
						if row.CM == "ct" {
							modes = []string{"ct", "c_nct", "s_nct"}
						} else if row.CM == "nct" {
							modes = []string{"nct"}
						}
						for _, m := range modes {
							cases = append(cases, rtCase{Row: row, Kind: kind, Mode: m, Seed: *seed*1000 + int64(k), Huge: huge})
						}
					}
					for _, rc := range cases {
						rc := rc
						jobs <- func(*rand.Rand) {
							runRoundTrip(rep, rc, &wmu, &wire)
							atomic.AddInt64(&evals, 1)
							if len(rc.Row.Msgs) == 3 {
								rep.sample(rc)
							}
						}
					}
				}
				return nil
			})
		}
		close(jobs)
		<-done
		if ferr != nil {
			return ferr
		}
		// a few long-lived connections with hundreds of frames each (Write, streamed Writer, Ping): the per-connection
		// rules of TraceWire (mask-key freshness above all) need more frames than any short program produces
		for li := 0; li < *long; li++ {
			libClient := li%2 == 0
			c, raw, err := ws.NewConn(libClient, "off", 0)
			if err != nil {
				return err
			}
			lr := rand.New(rand.NewSource(*seed*31 + int64(li)))
			go func() { // the peer answers pings so that Ping returns
				var acc []byte
				tmp := make([]byte, 4096)
				for {
					n, err := raw.In.Read(tmp)
					acc = append(acc, tmp[:n]...)
					for {
						f, k, e := ws.DecodeFrame(acc)
						if e != nil {
							break
						}
						acc = acc[k:]
						lines := wireLine{Ev: "Frame", Hdr: hdrInts(f.RawHeader)}
						if f.Op >= 8 {
							lines.Pl = string(f.Payload)
						}
						wmu.Lock()
						wire = append(wire, lines)
						wmu.Unlock()
						if f.Op == ws.OpPing {
							pf := ws.Frame{Fin: true, Op: ws.OpPong, Masked: !libClient, Key: [4]byte{9, 9, 9, 9}, Payload: f.Payload}
							raw.Out.Write(pf.Encode())
						}
					}
					if err != nil {
						return
					}
				}
			}()
			role := "server"
			if libClient {
				role = "client"
			}
			wmu.Lock()
			wire = append(wire, wireLine{Ev: "WireReset", Role: role})
			wmu.Unlock()
			c.CloseRead(context.Background())
			ctx, cancel := context.WithTimeout(context.Background(), 30*time.Second)
			for k := 0; k < 150; k++ {
				switch lr.Intn(3) {
				case 0:
					c.Write(ctx, websocket.MessageText, prf(int64(k), k, lr.Intn(200)))
				case 1:
					if w, err := c.Writer(ctx, websocket.MessageBinary); err == nil {
						w.Write(prf(int64(k), 1, lr.Intn(100)))
						w.Write(prf(int64(k), 2, lr.Intn(100)))
						w.Close()
					}
				default:
					c.Ping(ctx)
				}
			}
			cancel()
			c.CloseNow()
			time.Sleep(5 * time.Millisecond)
			evals++
		}
		if *wireOut != "" {
			f, err := os.Create(*wireOut)
			if err != nil {
				return err
			}
			enc := json.NewEncoder(f)
			for _, l := range wire {
				enc.Encode(l)
			}
			f.Close()
			rep.Extra["wire_lines"] = len(wire)
			rep.Extra["wire_traces_not_sent_to_tlc"] = wireSkipped
		}
		rep.Evaluations, rep.Rows, rep.Distinct = evals, rows, rows
		if err := finishRecvTrace(*connTrace, rep); err != nil {
			return err
		}
		rep.print()
		return nil
	}
}

var wireSkipped int

type multiFlag []string

func (m *multiFlag) String() string     { return fmt.Sprint(*m) }
func (m *multiFlag) Set(s string) error { *m = append(*m, s); return nil }
