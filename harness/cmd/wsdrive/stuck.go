package main

import (
	"bytes"
	"context"
	"flag"
	"fmt"
	"os"
	"strings"
	"sync"
	"time"

	"nhooyr.io/websocket"
	"verifharness/ws"
)

// ---- family: stuck (C07, C05) ----
// A transport whose Close() does not interrupt the I/O that is in flight (it lets go several seconds later, and a
// pending read then completes WITH DATA).  The library's teardown must not hand the connection's buffers, flate
// objects and windows back to the shared pools - nor take its locks "by force" - while a read or write of the
// closed connection is still using them: the next connection would be given objects that are still being written.
//
// Every scenario runs with all hooks recorded; the per-connection traces go to TraceConn.tla (a forced lock is
// never acquired while another goroutine holds it) and the global order to TracePool.tla.  A second connection is
// opened while the first one's I/O is still pending and must only ever see its own bytes.

type stuckEnd struct {
	*ws.End
	hold time.Duration
	once sync.Once
}

func (s *stuckEnd) Close() error {
	s.once.Do(func() { time.AfterFunc(s.hold, func() { s.End.Close() }) })
	return nil
}

var stuckMu sync.Mutex // the scenarios run concurrently and share the report's Extra map

type stuckCase struct {
	Client bool   `json:"client"`
	Busy   string `json:"busy"`   // read | write : the call that is in flight in the transport
	Closer string `json:"closer"` // closenow | close | ctx
	Mode   string `json:"mode"`
}

func runStuck(rep *Report, sc stuckCase, hold time.Duration) {
	a, b := ws.Pipe()
	se := &stuckEnd{End: a, hold: hold}
	var c *websocket.Conn
	var err error
	mode := ws.Mode(sc.Mode)
	if sc.Client {
		o := &websocket.DialOptions{}
		if mode.Flate() {
			o.CompressionMode = websocket.CompressionContextTakeover
		}
		c, _, err = ws.ClientConn(se, o, mode.ExtHeader())
	} else {
		o := &websocket.AcceptOptions{}
		if mode.Flate() {
			o.CompressionMode = websocket.CompressionContextTakeover
		}
		c, _, err = ws.ServerConn(se, o, mode.ExtHeader())
	}
	if err != nil {
		rep.miss("handshake", sc, err.Error())
		return
	}
	raw := b
	tagA := []byte(fmt.Sprintf("A-ONLY bytes of the stuck connection %v/%s/%s ", sc.Client, sc.Busy, sc.Closer))
	bg := context.Background()
	cctx, ccancel := context.WithCancel(bg)
	defer ccancel()
	var got []byte
	busyDone := make(chan struct{})
	switch sc.Busy {
	case "read":
		go func() {
			defer close(busyDone)
			_, p, _ := c.Read(cctx)
			got = p
		}()
	case "write":
		raw.In.Cap = 64 // the peer does not read: the write blocks in the transport
		b.In.Cap = 64
		a.Out.Cap = 64
		go func() {
			defer close(busyDone)
			c.Write(cctx, websocket.MessageBinary, bytes.Repeat(tagA, 400))
		}()
	}
	time.Sleep(60 * time.Millisecond)
	closerDone := make(chan struct{})
	t0 := time.Now()
	go func() {
		defer close(closerDone)
		switch sc.Closer {
		case "closenow":
			c.CloseNow()
		case "close":
			c.Close(websocket.StatusNormalClosure, "")
		case "ctx":
			ccancel()
			time.Sleep(100 * time.Millisecond)
			c.CloseNow()
		}
	}()
	// a second connection starts while the first one's I/O is still pending; it exchanges tagged messages both ways
	time.Sleep(hold - 900*time.Millisecond)
	c2, raw2, err := ws.NewConn(sc.Client, mode, 0)
	if err == nil {
		tagB := []byte("B-ONLY bytes of the second connection ")
		f := ws.Frame{Fin: true, Op: ws.OpBin, Masked: !sc.Client, Key: [4]byte{5, 6, 7, 8}, Payload: bytes.Repeat(tagB, 3)}
		raw2.Out.Write(f.Encode())
		if sc.Busy == "read" {
			// the stuck connection's pending read now completes - with data
			fa := ws.Frame{Fin: true, Op: ws.OpBin, Masked: !sc.Client, Key: [4]byte{9, 9, 9, 9}, Payload: bytes.Repeat(tagA, 3)}
			raw.Out.Write(fa.Encode())
		}
		ctx, cancel := context.WithTimeout(bg, 3*time.Second)
		_, p, rerr := c2.Read(ctx)
		cancel()
		if rerr != nil {
			rep.miss("stuck-second-connection-read-failed", sc, rerr.Error())
		} else if !bytes.Equal(p, bytes.Repeat(tagB, 3)) {
			rep.miss("second-connection-read-bytes-of-another-connection", sc, fmt.Sprintf("%.60q", p))
		}
		ctx, cancel = context.WithTimeout(bg, 3*time.Second)
		werr := c2.Write(ctx, websocket.MessageBinary, bytes.Repeat(tagB, 5))
		cancel()
		if werr == nil {
			time.Sleep(20 * time.Millisecond)
			fs, _, _ := ws.DecodeAll(raw2.In.Snapshot())
			ok := false
			var acc []byte
			comp := false
			for _, f := range fs {
				if f.Op == ws.OpBin {
					acc, comp = nil, f.Rsv1
				}
				if f.Op == ws.OpBin || f.Op == ws.OpCont {
					acc = append(acc, f.Payload...)
					if f.Fin {
						pl := acc
						if comp {
							pl, _ = (&ws.Inflater{}).Decompress(acc)
						}
						ok = bytes.Equal(pl, bytes.Repeat(tagB, 5))
					}
				}
			}
			if !ok {
				rep.miss("second-connection-wrote-bytes-of-another-connection", sc, "the frame the second connection's peer received is not the message written")
			}
		}
		c2.CloseNow()
	}
	select {
	case <-closerDone:
	case <-time.After(hold + 8*time.Second):
		rep.miss("stuck-closer-did-not-return", sc, "blocked in: "+libStacks())
	}
	stuckMu.Lock()
	rep.Extra["closer_ms_"+sc.Busy+"_"+sc.Closer] = time.Since(t0).Milliseconds()
	stuckMu.Unlock()
	raw.Close()
	select {
	case <-busyDone:
	case <-time.After(5 * time.Second):
	}
	if sc.Busy == "read" && len(got) > 0 && !bytes.Equal(got, bytes.Repeat(tagA, 3)) {
		rep.miss("stuck-connection-read-foreign-bytes", sc, fmt.Sprintf("%.60q", got))
	}
}

func init() {
	families["stuck"] = func(args []string) error {
		fs := flag.NewFlagSet("stuck", flag.ExitOnError)
		connOut := fs.String("conn-trace", "", "per-connection hook trace (TraceConn)")
		poolOut := fs.String("pool-trace", "", "global-order hook trace (TracePool)")
		holdMs := fs.Int("hold", 6500, "milliseconds the transport holds on to pending I/O after Close")
		fs.Parse(args)
		rep := newReport("stuck")
		tr := &ws.Tracer{}
		tr.Install()
		var cases []stuckCase
		for _, client := range []bool{true, false} {
			for _, busy := range []string{"read", "write"} {
				for _, closer := range []string{"closenow", "close", "ctx"} {
					m := "off"
					if busy == "read" && closer == "closenow" || busy == "write" && closer == "ctx" {
						m = "ct"
					}
					cases = append(cases, stuckCase{Client: client, Busy: busy, Closer: closer, Mode: m})
				}
			}
		}
		var wg sync.WaitGroup
		for _, sc := range cases {
			wg.Add(1)
			go func(sc stuckCase) {
				defer wg.Done()
				runStuck(rep, sc, time.Duration(*holdMs)*time.Millisecond)
			}(sc)
			rep.Evaluations++
			rep.sample(sc)
		}
		wg.Wait()
		time.Sleep(50 * time.Millisecond)
		evs := tr.Take()
		if *poolOut != "" {
			os.Remove(*poolOut)
			var keep []websocket.VerifEvent
			keep = append(keep, websocket.VerifEvent{Ev: "PoolReset"})
			for _, e := range evs {
				switch e.Ev {
				case "PoolGet", "PoolPut", "UseBegin", "UseEnd", "CloseExit":
					keep = append(keep, e)
				}
			}
			if err := ws.WriteNDJSON(*poolOut, keep); err != nil {
				return err
			}
		}
		if *connOut != "" {
			os.Remove(*connOut)
			byConn := map[int64][]websocket.VerifEvent{}
			var order []int64
			for _, e := range evs {
				if _, ok := byConn[e.Conn]; !ok {
					order = append(order, e.Conn)
				}
				byConn[e.Conn] = append(byConn[e.Conn], e)
			}
			var all []websocket.VerifEvent
			for _, id := range order {
				all = append(all, websocket.VerifEvent{Conn: id, Ev: "TraceReset"})
				all = append(all, byConn[id]...)
			}
			if err := ws.WriteNDJSON(*connOut, all); err != nil {
				return err
			}
		}
		rep.Distinct = int64(len(cases))
		rep.print()
		return nil
	}
}

var _ = strings.Contains
