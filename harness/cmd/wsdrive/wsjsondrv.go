package main

import (
	"bytes"
	"context"
	"encoding/json"
	"flag"
	"fmt"
	"math/rand"
	"os"
	"reflect"
	"strings"
	"sync"
	"sync/atomic"
	"time"

	"nhooyr.io/websocket"
	"nhooyr.io/websocket/wsjson"
	"verifharness/ws"
)

// ---- family: wsjson (C19) ----

type jShape struct {
	K     string   `json:"k"`
	V     string   `json:"v"`
	Items []jShape `json:"items"`
}
type jRow struct {
	Shape  jShape `json:"shape"`
	Target string `json:"target"`
	Fault  string `json:"fault"`
}

func buildValue(s jShape, rng *rand.Rand, depth int) interface{} {
	switch s.K {
	case "leaf":
		switch s.V {
		case "null":
			return nil
		case "true":
			return true
		case "num":
			return float64(rng.Intn(1000)) - 500.5
		case "bignum":
			return float64(1<<53) + float64(rng.Intn(100))*2
		case "str":
			return "plain " + string(prf(rng.Int63(), depth, 5))
		case "unicode":
			return "snow☃man \"quoted\" \\ back\u0000nul \U0001F600 <tag>&"
		case "longstr":
			return strings.Repeat("0123456789abcdef", 2500) // 40 KB: beyond the default read limit
		case "hugestr":
			return strings.Repeat("0123456789abcdef", 75000) // 1.2 MB
		}
	case "arr":
		out := make([]interface{}, 0, len(s.Items))
		for _, it := range s.Items {
			out = append(out, buildValue(it, rng, depth+1))
		}
		return out
	case "obj":
		out := map[string]interface{}{}
		for i, it := range s.Items {
			out[fmt.Sprintf("k%d", i)] = buildValue(it, rng, depth+1)
		}
		return out
	}
	return nil
}

// jDeep: a target whose decoding errors carry a long dotted field path (encoding/json names the whole path in an
// UnmarshalTypeError): whatever the error says, the peer must get status 1007.
type jDeep struct {
	K0 struct {
		AVeryDescriptiveFieldNameForTheOuterLevel struct {
			AnotherQuiteLongFieldNameOnTheSecondLevel struct {
				TheInnermostFieldThatHoldsANumber int `json:"the_innermost_field_that_holds_a_number"`
			} `json:"another_quite_long_field_name_on_the_second_level"`
		} `json:"a_very_descriptive_field_name_for_the_outer_level"`
	} `json:"k0"`
}

type jStruct struct {
	K0 interface{} `json:"k0"`
	K1 *string     `json:"k1"`
}

func newTarget(t string) interface{} {
	switch t {
	case "any":
		return new(interface{})
	case "raw":
		return new(json.RawMessage)
	case "bytes":
		return new([]byte)
	case "int":
		return new(int)
	case "string":
		return new(string)
	case "struct":
		return new(jStruct)
	case "deepstruct":
		return new(jDeep)
	case "map":
		return new(map[string]interface{})
	}
	return new(interface{})
}

type jHeld struct {
	val  interface{}
	copy []byte // deep copy as JSON, taken right after the read
}

type jConnPair struct {
	c   *websocket.Conn
	raw *ws.End
	mu  sync.Mutex
}

func runJSONRow(rep *Report, row jRow, seed int64, held *[]jHeld, hmu *sync.Mutex) {
	rng := rand.New(rand.NewSource(seed))
	client := rng.Intn(2) == 0
	c, raw, err := ws.NewConn(client, "off", 0)
	if err != nil {
		rep.miss("handshake", row, err.Error())
		return
	}
	defer c.CloseNow()
	defer raw.Close()
	c.SetReadLimit(4 << 20)
	// cooperative peer: keeps a copy of everything the library writes and echoes Close frames at once
	var wmu sync.Mutex
	var wireBytes []byte
	go func() {
		var acc []byte
		tmp := make([]byte, 1<<16)
		for {
			n, err := raw.In.Read(tmp)
			wmu.Lock()
			wireBytes = append(wireBytes, tmp[:n]...)
			wmu.Unlock()
			acc = append(acc, tmp[:n]...)
			for {
				f, k, e := ws.DecodeFrame(acc)
				if e != nil {
					break
				}
				acc = acc[k:]
				if f.Op == ws.OpClose {
					e := ws.Frame{Fin: true, Op: ws.OpClose, Masked: !client, Key: [4]byte{1, 1, 1, 1}, Payload: f.Payload}
					raw.Out.Write(e.Encode())
				}
			}
			if err != nil {
				return
			}
		}
	}()
	snapshot := func() []byte {
		time.Sleep(2 * time.Millisecond)
		wmu.Lock()
		defer wmu.Unlock()
		return append([]byte(nil), wireBytes...)
	}
	v := buildValue(row.Shape, rng, 0)
	doc, _ := json.Marshal(v)
	ctx, cancel := context.WithTimeout(context.Background(), 5*time.Second)
	defer cancel()
	// ---- Write: exactly one text message carrying a JSON-equivalent document ----
	if row.Fault == "none" && row.Target == "any" {
		// WSJson!JsonWrite on a closed connection / with a context that is done: the call fails, writes nothing, and nothing of
		// its value may survive it -- the Write that follows (any connection) still sends exactly its own value
		if k := rng.Intn(3); k > 0 {
			if dc, draw, derr := ws.NewConn(client, "off", 0); derr == nil {
				lost := map[string]interface{}{"lost-value-of-a-failed-write": seed}
				dctx, dcancel := context.WithCancel(context.Background())
				if k == 1 {
					dc.CloseNow()
				} else {
					dcancel()
				}
				// (with a context that is already done the write may still go through: nothing says it must not)
				if werr := wsjson.Write(dctx, dc, lost); werr == nil && k == 1 {
					rep.miss("wsjson-write-on-closed-connection-succeeded", row, "")
				}
				dcancel()
				dc.CloseNow()
				draw.Close()
			}
		}
		if err := wsjson.Write(ctx, c, v); err != nil {
			rep.miss("wsjson-write-failed", row, err.Error())
			return
		}
		fs, rest, derr := ws.DecodeAll(snapshot())
		for try := 0; try < 400 && derr == nil && (len(rest) != 0 || len(fs) == 0); try++ {
			time.Sleep(5 * time.Millisecond) // the peer goroutine has not drained a large message yet
			fs, rest, derr = ws.DecodeAll(snapshot())
		}
		nData, ok := 0, derr == nil && len(rest) == 0
		var payload []byte
		for _, f := range fs {
			if f.Op <= 2 {
				if f.Op != ws.OpCont {
					nData++
					if f.Op != ws.OpText {
						ok = false
					}
				}
				payload = append(payload, f.Payload...)
			}
		}
		if !ok || nData != 1 {
			rep.miss("wsjson-write-not-one-text-message", row, fmt.Sprintf("%d data messages, decodable=%v", nData, ok))
			return
		}
		var back interface{}
		if err := json.Unmarshal(payload, &back); err != nil || !reflect.DeepEqual(back, normalise(v)) {
			rep.miss("wsjson-written-document-not-equivalent", row, fmt.Sprintf("%.80q", payload))
			return
		}
	}
	// ---- Read ----
	peerMasks := !client
	send := func(op int, p []byte) {
		f := ws.Frame{Fin: true, Op: op, Masked: peerMasks, Key: [4]byte{8, 6, 4, 2}, Payload: p}
		raw.Out.Write(f.Encode())
	}
	msg := doc
	op := ws.OpText
	switch row.Fault {
	case "truncate":
		if len(doc) < 2 {
			return
		}
		msg = doc[:len(doc)-1-rng.Intn(len(doc)-1)]
		if json.Valid(msg) {
			return // cutting a number can leave a valid document
		}
	case "garbage":
		msg = append([]byte("}{"), doc...)
	case "twovalues":
		msg = append(append(append([]byte(nil), doc...), ' '), doc...)
	case "emptymsg":
		msg = nil
	case "binaryframe":
		op = ws.OpBin // the type of the message is not part of the statement's read clause: decoded like any other
	case "deeptype":
		// a type mismatch three levels down: the decoder's message names the whole path (well over 100 bytes)
		msg = []byte(`{"k0":{"a_very_descriptive_field_name_for_the_outer_level":{"another_quite_long_field_name_on_the_second_level":{"the_innermost_field_that_holds_a_number":"not a number"}}}}`)
	}
	if row.Target == "deepstruct" && row.Fault == "none" {
		msg = []byte(`{"k0":{"a_very_descriptive_field_name_for_the_outer_level":{"another_quite_long_field_name_on_the_second_level":{"the_innermost_field_that_holds_a_number":42}}}}`)
	}
	send(op, msg)
	follow := []byte(`{"follow":"up"}`)
	send(ws.OpText, follow)
	target := newTarget(row.Target)
	rerr := wsjson.Read(ctx, c, target)
	// reference semantics: encoding/json on the same bytes into the same target type
	ref := newTarget(row.Target)
	referr := json.Unmarshal(msg, ref)
	if referr != nil {
		if rerr == nil {
			rep.miss("wsjson-invalid-document-accepted", row, fmt.Sprintf("%.60q", msg))
			return
		}
		c.CloseNow()
		fs, _, _ := ws.DecodeAll(snapshot())
		found := false
		for _, f := range fs {
			if f.Op == ws.OpClose && len(f.Payload) >= 2 && int(f.Payload[0])<<8|int(f.Payload[1]) == 1007 {
				found = true
			}
		}
		if !found {
			rep.miss("wsjson-invalid-document-without-1007", row, fmt.Sprintf("%.60q err=%v", msg, rerr))
		}
		c2, cancel2 := context.WithTimeout(context.Background(), time.Second)
		defer cancel2()
		if err := c.Write(c2, websocket.MessageText, []byte("x")); err == nil {
			rep.miss("wsjson-invalid-document-left-connection-open", row, "")
		}
		return
	}
	if rerr != nil {
		rep.miss("wsjson-valid-document-rejected", row, fmt.Sprintf("%.60q: %v", msg, rerr))
		return
	}
	if !reflect.DeepEqual(reflect.ValueOf(target).Elem().Interface(), reflect.ValueOf(ref).Elem().Interface()) {
		rep.miss("wsjson-decoded-value-differs", row, fmt.Sprintf("%.80q", msg))
		return
	}
	// exactly one message consumed: the follow-up is still there
	var fu map[string]string
	if err := wsjson.Read(ctx, c, &fu); err != nil || fu["follow"] != "up" {
		rep.miss("wsjson-read-consumed-more-or-less-than-one-message", row, fmt.Sprint(err))
		return
	}
	// aliasing: keep the result and a private deep copy; later reads (any connection) reuse the pooled buffer
	cp, _ := json.Marshal(reflect.ValueOf(target).Elem().Interface())
	hmu.Lock()
	*held = append(*held, jHeld{val: target, copy: cp})
	if len(*held) > 64 {
		*held = (*held)[1:]
	}
	for _, h := range *held {
		now, _ := json.Marshal(reflect.ValueOf(h.val).Elem().Interface())
		if !bytes.Equal(now, h.copy) {
			rep.miss("wsjson-result-changed-after-later-read", row, fmt.Sprintf("%.60q -> %.60q", h.copy, now))
			break
		}
	}
	hmu.Unlock()
}

// normalise maps a generated value to what encoding/json yields when decoding its encoding into interface{}
func normalise(v interface{}) interface{} {
	b, _ := json.Marshal(v)
	var out interface{}
	json.Unmarshal(b, &out)
	return out
}

func init() {
	families["wsjson"] = func(args []string) error {
		fs := flag.NewFlagSet("wsjson", flag.ExitOnError)
		rowsPath := fs.String("rows", "", "rows")
		seed := fs.Int64("seed", 1, "seed")
		stride := fs.Int("stride", 1, "use every stride-th row")
		out := fs.String("pool-trace", "", "output NDJSON for TracePool")
		fs.Parse(args)
		rep := newReport("wsjson")
		tr := &ws.Tracer{}
		tr.Install()
		var held []jHeld
		var hmu sync.Mutex
		var evals, rows int64
		jobs := make(chan func(*rand.Rand), 64)
		done := make(chan struct{})
		go func() { parallel(16, jobs, *seed); close(done) }()
		k := 0
		err := readNDJSON(*rowsPath, func(b []byte) error {
			k++
			if (k+int(*seed))%*stride != 0 {
				return nil
			}
			var row jRow
			if err := json.Unmarshal(b, &row); err != nil {
				return err
			}
			rows++
			kk := k
			jobs <- func(*rand.Rand) {
				runJSONRow(rep, row, *seed*100003+int64(kk), &held, &hmu)
				atomic.AddInt64(&evals, 1)
				if row.Shape.K == "obj" && row.Fault != "none" {
					rep.sample(row)
				}
			}
			return nil
		})
		close(jobs)
		<-done
		if err != nil {
			return err
		}
		if *out != "" {
			os.Remove(*out)
			evs := tr.Take()
			keep := []websocket.VerifEvent{{Ev: "PoolReset"}}
			for _, e := range evs {
				if (e.Ev == "PoolGet" || e.Ev == "PoolPut") && e.S == "buf" || e.Ev == "CloseExit" {
					keep = append(keep, e)
				}
			}
			if err := ws.WriteNDJSON(*out, keep); err != nil {
				return err
			}
			rep.Extra["pool_events"] = len(keep)
		}
		rep.Evaluations, rep.Rows, rep.Distinct = evals, rows, rows
		rep.print()
		return nil
	}
}
