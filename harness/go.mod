module verifharness

go 1.19

require nhooyr.io/websocket v0.0.0

replace nhooyr.io/websocket => /repo
