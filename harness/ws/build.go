package ws

import (
	"bufio"
	"context"
	"crypto/sha1"
	"encoding/base64"
	"io"
	"net"
	"net/http"
	"strings"

	"nhooyr.io/websocket"
)

// hijackRW is a ResponseWriter that hands out a prepared transport on Hijack.
type hijackRW struct {
	hdr      http.Header
	Status   int
	Body     strings.Builder
	conn     net.Conn
	Hijacked bool
}

func (w *hijackRW) Header() http.Header         { return w.hdr }
func (w *hijackRW) Write(p []byte) (int, error) { return w.Body.Write(p) }
func (w *hijackRW) WriteHeader(s int) {
	if w.Status == 0 {
		w.Status = s
	}
}
func (w *hijackRW) Hijack() (net.Conn, *bufio.ReadWriter, error) {
	w.Hijacked = true
	return w.conn, bufio.NewReadWriter(bufio.NewReader(w.conn), bufio.NewWriter(w.conn)), nil
}

const testKey = "dGhlIHNhbXBsZSBub25jZQ=="

// ServerConn runs the real Accept over transport t. ext is the client's Sec-WebSocket-Extensions
// offer ("" = none). It returns the connection and the response headers.
func ServerConn(t net.Conn, opts *websocket.AcceptOptions, ext string) (*websocket.Conn, http.Header, error) {
	r, _ := http.NewRequest("GET", "http://example.com/", nil)
	r.Header.Set("Connection", "Upgrade")
	r.Header.Set("Upgrade", "websocket")
	r.Header.Set("Sec-WebSocket-Version", "13")
	r.Header.Set("Sec-WebSocket-Key", testKey)
	if ext != "" {
		r.Header.Set("Sec-WebSocket-Extensions", ext)
	}
	w := &hijackRW{hdr: http.Header{}, conn: t}
	c, err := websocket.Accept(w, r, opts)
	return c, w.hdr, err
}

type rtFunc func(*http.Request) (*http.Response, error)

func (f rtFunc) RoundTrip(r *http.Request) (*http.Response, error) { return f(r) }

// AcceptKey computes Sec-WebSocket-Accept independently of the library.
func AcceptKey(key string) string {
	h := sha1.Sum([]byte(key + "258EAFA5-E914-47DA-95CA-C5AB0DC85B11"))
	return base64.StdEncoding.EncodeToString(h[:])
}

// ClientConn runs the real Dial against a scripted 101 response whose body is transport t.
// respExt is the server's Sec-WebSocket-Extensions answer ("" = none).
func ClientConn(t io.ReadWriteCloser, opts *websocket.DialOptions, respExt string) (*websocket.Conn, *http.Request, error) {
	var o websocket.DialOptions
	if opts != nil {
		o = *opts
	}
	var seen *http.Request
	o.HTTPClient = &http.Client{Transport: rtFunc(func(r *http.Request) (*http.Response, error) {
		seen = r
		h := http.Header{}
		h.Set("Connection", "Upgrade")
		h.Set("Upgrade", "websocket")
		h.Set("Sec-WebSocket-Accept", AcceptKey(r.Header.Get("Sec-WebSocket-Key")))
		if respExt != "" {
			h.Set("Sec-WebSocket-Extensions", respExt)
		}
		return &http.Response{StatusCode: 101, Header: h, Body: t, Proto: "HTTP/1.1", ProtoMajor: 1, ProtoMinor: 1, Request: r}, nil
	})}
	c, _, err := websocket.Dial(context.Background(), "ws://example.com/", &o)
	return c, seen, err
}

// Mode names the compression setup of a connection under test.
// "off"; "ct" (context takeover both ways); "nct" (no context takeover both ways);
// "c_nct" (client_no_context_takeover only), "s_nct" (server_no_context_takeover only).
type Mode string

func (m Mode) Flate() bool { return m != "off" && m != "" }

// Takeover reports (clientToServerTakeover, serverToClientTakeover).
func (m Mode) Takeover() (c2s, s2c bool) {
	switch m {
	case "ct":
		return true, true
	case "nct":
		return false, false
	case "c_nct":
		return false, true
	case "s_nct":
		return true, false
	}
	return false, false
}

func (m Mode) ExtHeader() string { return m.extHeader() }

func (m Mode) extHeader() string {
	switch m {
	case "ct":
		return "permessage-deflate"
	case "nct":
		return "permessage-deflate; client_no_context_takeover; server_no_context_takeover"
	case "c_nct":
		return "permessage-deflate; client_no_context_takeover"
	case "s_nct":
		return "permessage-deflate; server_no_context_takeover"
	}
	return ""
}

// NewConn puts a real library Conn of the given role on one end of a fresh in-memory pipe and
// returns it together with the other (raw) end. threshold 0 = library default.
func NewConn(client bool, m Mode, threshold int) (*websocket.Conn, *End, error) {
	a, b := Pipe()
	if client {
		o := &websocket.DialOptions{CompressionThreshold: threshold}
		if m.Flate() {
			o.CompressionMode = websocket.CompressionContextTakeover
		}
		c, _, err := ClientConn(a, o, m.extHeader())
		return c, b, err
	}
	o := &websocket.AcceptOptions{CompressionThreshold: threshold}
	if m.Flate() {
		o.CompressionMode = websocket.CompressionContextTakeover
	}
	c, _, err := ServerConn(a, o, m.extHeader())
	return c, b, err
}

// Pair connects a real library client and a real library server through the real handshake
// (Dial's request is answered by Accept) over an in-memory pipe. tapC2S / tapS2C, if non-nil,
// receive every byte the client / the server writes.
func Pair(dopts *websocket.DialOptions, aopts *websocket.AcceptOptions, tapC2S, tapS2C func([]byte)) (client, server *websocket.Conn, respHdr http.Header, err error) {
	a, b := Pipe()
	a.Out.Tap = tapC2S
	b.Out.Tap = tapS2C
	var o websocket.DialOptions
	if dopts != nil {
		o = *dopts
	}
	var serr error
	o.HTTPClient = &http.Client{Transport: rtFunc(func(r *http.Request) (*http.Response, error) {
		w := &hijackRW{hdr: http.Header{}, conn: b}
		server, serr = websocket.Accept(w, r, aopts)
		if serr != nil {
			return &http.Response{StatusCode: w.Status, Header: w.hdr, Body: io.NopCloser(strings.NewReader("")), Request: r}, nil
		}
		respHdr = w.hdr
		return &http.Response{StatusCode: 101, Header: w.hdr, Body: a, Proto: "HTTP/1.1", ProtoMajor: 1, ProtoMinor: 1, Request: r}, nil
	})}
	client, _, err = websocket.Dial(context.Background(), "ws://example.com/", &o)
	if err == nil && serr != nil {
		err = serr
	}
	return
}
