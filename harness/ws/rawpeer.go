package ws

import (
	"bytes"
	"compress/flate"
	"encoding/binary"
	"errors"
	"io"
)

// Frame is a WebSocket frame as an independent (non-library) peer sees it.
type Frame struct {
	Fin, Rsv1, Rsv2, Rsv3 bool
	Op                    int
	Masked                bool
	Key                   [4]byte
	Payload               []byte // unmasked application bytes
	// LenOverride, if non-nil, is written as the 8-byte extended length instead of len(Payload)
	// (used to declare lengths the payload does not have; top bit allowed).
	LenOverride *uint64
	// ForceLenEnc forces a 16- or 64-bit length encoding (0 = minimal).
	ForceLenEnc int
	// RawHeader is filled by the decoder: the exact header bytes seen on the wire.
	RawHeader []byte
}

const (
	OpCont  = 0
	OpText  = 1
	OpBin   = 2
	OpClose = 8
	OpPing  = 9
	OpPong  = 10
)

// Encode serialises f per RFC 6455 section 5.2 (written from the RFC, not from the library).
func (f Frame) Encode() []byte {
	var b []byte
	b0 := byte(f.Op & 0x0f)
	if f.Fin {
		b0 |= 0x80
	}
	if f.Rsv1 {
		b0 |= 0x40
	}
	if f.Rsv2 {
		b0 |= 0x20
	}
	if f.Rsv3 {
		b0 |= 0x10
	}
	b = append(b, b0)
	n := uint64(len(f.Payload))
	mb := byte(0)
	if f.Masked {
		mb = 0x80
	}
	switch {
	case f.LenOverride != nil:
		b = append(b, mb|127)
		var x [8]byte
		binary.BigEndian.PutUint64(x[:], *f.LenOverride)
		b = append(b, x[:]...)
	case f.ForceLenEnc == 64 || (f.ForceLenEnc == 0 && n > 65535):
		b = append(b, mb|127)
		var x [8]byte
		binary.BigEndian.PutUint64(x[:], n)
		b = append(b, x[:]...)
	case f.ForceLenEnc == 16 || (f.ForceLenEnc == 0 && n > 125):
		b = append(b, mb|126)
		var x [2]byte
		binary.BigEndian.PutUint16(x[:], uint16(n))
		b = append(b, x[:]...)
	default:
		b = append(b, mb|byte(n))
	}
	if f.Masked {
		b = append(b, f.Key[:]...)
		for i, c := range f.Payload {
			b = append(b, c^f.Key[i%4])
		}
	} else {
		b = append(b, f.Payload...)
	}
	return b
}

var ErrShort = errors.New("short")

// DecodeFrame parses one frame from b. It returns ErrShort if b does not hold a complete frame.
func DecodeFrame(b []byte) (f Frame, n int, err error) {
	if len(b) < 2 {
		return f, 0, ErrShort
	}
	f.Fin = b[0]&0x80 != 0
	f.Rsv1 = b[0]&0x40 != 0
	f.Rsv2 = b[0]&0x20 != 0
	f.Rsv3 = b[0]&0x10 != 0
	f.Op = int(b[0] & 0x0f)
	f.Masked = b[1]&0x80 != 0
	l := uint64(b[1] & 0x7f)
	p := 2
	switch l {
	case 126:
		if len(b) < p+2 {
			return f, 0, ErrShort
		}
		l = uint64(binary.BigEndian.Uint16(b[p:]))
		p += 2
	case 127:
		if len(b) < p+8 {
			return f, 0, ErrShort
		}
		l = binary.BigEndian.Uint64(b[p:])
		p += 8
	}
	if f.Masked {
		if len(b) < p+4 {
			return f, 0, ErrShort
		}
		copy(f.Key[:], b[p:p+4])
		p += 4
	}
	if l > 1<<40 {
		return f, 0, errors.New("absurd length")
	}
	if uint64(len(b)-p) < l {
		return f, 0, ErrShort
	}
	f.RawHeader = append([]byte(nil), b[:p]...)
	f.Payload = make([]byte, l)
	copy(f.Payload, b[p:p+int(l)])
	if f.Masked {
		for i := range f.Payload {
			f.Payload[i] ^= f.Key[i%4]
		}
	}
	return f, p + int(l), nil
}

// DecodeAll parses as many complete frames as b holds and returns the unparsed rest.
func DecodeAll(b []byte) (fs []Frame, rest []byte, err error) {
	for {
		f, n, e := DecodeFrame(b)
		if e == ErrShort {
			return fs, b, nil
		}
		if e != nil {
			return fs, b, e
		}
		fs = append(fs, f)
		b = b[n:]
	}
}

// ClosePayload builds a Close frame body.
func ClosePayload(code int, reason string) []byte {
	p := make([]byte, 2+len(reason))
	binary.BigEndian.PutUint16(p, uint16(code))
	copy(p[2:], reason)
	return p
}

// Deflater is a reference permessage-deflate compressor with explicit context takeover.
type Deflater struct {
	Takeover bool
	Level    int
	fw       *flate.Writer
	buf      bytes.Buffer
}

// Compress returns the RFC 7692 payload of msg (sync flush, trailing 00 00 ff ff removed).
func (d *Deflater) Compress(msg []byte) []byte {
	if d.fw == nil || !d.Takeover {
		lvl := d.Level
		if lvl == 0 {
			lvl = flate.BestCompression
		}
		d.fw, _ = flate.NewWriter(&d.buf, lvl)
	}
	d.buf.Reset()
	d.fw.Write(msg)
	d.fw.Flush()
	out := append([]byte(nil), d.buf.Bytes()...)
	if len(out) >= 4 && bytes.Equal(out[len(out)-4:], []byte{0, 0, 0xff, 0xff}) {
		out = out[:len(out)-4]
	}
	return out
}

// CompressFinal compresses msg ending with a BFINAL=1 block (RFC 7692 7.2.3.4); no takeover possible afterwards.
func CompressFinal(msg []byte) []byte {
	var buf bytes.Buffer
	fw, _ := flate.NewWriter(&buf, flate.BestCompression)
	fw.Write(msg)
	fw.Close()
	// RFC 7692 7.2.3.4: one more octet (an empty stored-block header) so that receivers that append
	// 00 00 ff ff can treat the payload like any other.
	return append(buf.Bytes(), 0x00)
}

// Inflater is a reference permessage-deflate decompressor with explicit context takeover.
type Inflater struct {
	Takeover bool
	hist     []byte
}

func (i *Inflater) Decompress(payload []byte) ([]byte, error) {
	src := io.MultiReader(bytes.NewReader(payload), bytes.NewReader([]byte{0, 0, 0xff, 0xff, 0x01, 0, 0, 0xff, 0xff}))
	var dict []byte
	if i.Takeover {
		dict = i.hist
	}
	fr := flate.NewReaderDict(src, dict)
	out, err := io.ReadAll(fr)
	if err != nil {
		return out, err
	}
	if i.Takeover {
		i.hist = append(i.hist, out...)
		if len(i.hist) > 32768 {
			i.hist = append([]byte(nil), i.hist[len(i.hist)-32768:]...)
		}
	}
	return out, nil
}
