package ws

import (
	"fmt"
	"runtime/debug"
	"syscall"
)

// Read-only caller buffers. "The buffers the caller passes to the write calls are never modified" is a
// statement about the whole duration of the call, not about what the buffer holds once the call is over:
// a library that scribbles on the buffer and restores it before returning passes every after-the-fact
// comparison.  Lend copies the caller's bytes into a private mapping and write-protects it for the call;
// any store into it, at any moment, from Go or assembly, faults.  WithFaults turns the fault into a value.

type ROBuf struct {
	mem []byte
	n   int
}

// Lend returns a write-protected copy of data (len and cap exactly len(data)).
func Lend(data []byte) (*ROBuf, []byte, error) {
	if len(data) == 0 {
		return &ROBuf{}, data, nil
	}
	ps := syscall.Getpagesize()
	size := (len(data) + ps - 1) / ps * ps
	mem, err := syscall.Mmap(-1, 0, size, syscall.PROT_READ|syscall.PROT_WRITE, syscall.MAP_ANON|syscall.MAP_PRIVATE)
	if err != nil {
		return nil, nil, err
	}
	copy(mem, data)
	if err := syscall.Mprotect(mem, syscall.PROT_READ); err != nil {
		syscall.Munmap(mem)
		return nil, nil, err
	}
	return &ROBuf{mem: mem, n: len(data)}, mem[:len(data):len(data)], nil
}

// Release unmaps the buffer. The lent slice must not be used afterwards.
func (b *ROBuf) Release() {
	if b != nil && b.mem != nil {
		syscall.Munmap(b.mem)
		b.mem = nil
	}
}

// WithFaults runs fn in the calling goroutine with memory faults turned into panics and reports the
// fault, if any (other panics are re-raised).
func WithFaults(fn func()) (fault string) {
	old := debug.SetPanicOnFault(true)
	defer debug.SetPanicOnFault(old)
	defer func() {
		if r := recover(); r != nil {
			if e, ok := r.(interface{ Addr() uintptr }); ok {
				fault = fmt.Sprintf("%v (address %#x)", r, e.Addr())
				return
			}
			if e, ok := r.(error); ok && (e.Error() == "runtime error: invalid memory address or nil pointer dereference") {
				fault = e.Error()
				return
			}
			panic(r)
		}
	}()
	fn()
	return ""
}
