package ws

import (
	"bufio"
	"encoding/json"
	"os"
	"sync"
	"time"

	"nhooyr.io/websocket"
)

// Tracer collects hook events in one global order (rule R4 of DESIGN.md).
type Tracer struct {
	mu     sync.Mutex
	Events []websocket.VerifEvent
	// Gate, if set, is called outside the tracer lock after the event was recorded;
	// it may block to steer the schedule (rule R5).
	Gate func(e websocket.VerifEvent)
	// Keep, if set, selects the events that are recorded at all (sampling by connection in the big replay campaigns).
	Keep func(e websocket.VerifEvent) bool
}

// Install makes t the process-wide sink. Call before any connection exists.
func (t *Tracer) Install() {
	websocket.VerifSink = func(e websocket.VerifEvent) {
		if t.Keep != nil && !t.Keep(e) {
			return
		}
		t.mu.Lock()
		t.Events = append(t.Events, e)
		t.mu.Unlock()
		if g := t.Gate; g != nil {
			g(e)
		}
	}
}

// Add appends a harness-originated event in the same order.
func (t *Tracer) Add(e websocket.VerifEvent) {
	t.mu.Lock()
	t.Events = append(t.Events, e)
	t.mu.Unlock()
}

// Take returns and clears the events recorded so far.
func (t *Tracer) Take() []websocket.VerifEvent {
	t.mu.Lock()
	ev := t.Events
	t.Events = nil
	t.mu.Unlock()
	return ev
}

type traceLine struct {
	C  int64  `json:"c"`
	G  int64  `json:"g"`
	Ev string `json:"ev"`
	L  string `json:"l"`
	S  string `json:"s"`
	A  int64  `json:"a"`
	B  int64  `json:"b"`
	D  int64  `json:"d"`
	E  int64  `json:"e"`
}

// WriteNDJSON appends events to path, one JSON object per line.
func WriteNDJSON(path string, evs []websocket.VerifEvent) error {
	f, err := os.OpenFile(path, os.O_CREATE|os.O_WRONLY|os.O_APPEND, 0o644)
	if err != nil {
		return err
	}
	w := bufio.NewWriter(f)
	enc := json.NewEncoder(w)
	for _, e := range evs {
		// every field always present: the trace specifications read e.s / e.l unconditionally
		if err := enc.Encode(traceLine{e.Conn, e.G, e.Ev, e.L, e.S, e.A, e.B, e.D, e.E}); err != nil {
			return err
		}
	}
	if err := w.Flush(); err != nil {
		return err
	}
	return f.Close()
}

func bit(b bool, k uint) int64 {
	if b {
		return 1 << k
	}
	return 0
}

// LogPeerScripted tells the trace specifications that the peer of c is the harness's scripted raw
// peer, so that every frame the library parses must be one LogPeerSent announced, in order.
func LogPeerScripted(c *websocket.Conn) {
	if websocket.VerifSink != nil {
		websocket.VerifSink(websocket.VerifEvent{Conn: websocket.VerifConnID(c), Ev: "PeerScripted"})
	}
}

// LogPeerSent records, in the tracer's global order and BEFORE the bytes are handed to the
// transport, a frame the raw peer is about to send to c (TraceRecv.tla compares the headers the
// library parses with these and takes Close codes from here).
func LogPeerSent(c *websocket.Conn, f Frame) {
	if websocket.VerifSink == nil {
		return
	}
	flags := bit(f.Fin, 0) | bit(f.Rsv1, 1) | bit(f.Rsv2, 2) | bit(f.Rsv3, 3) | bit(f.Masked, 4)
	ln := int64(len(f.Payload))
	if f.LenOverride != nil {
		ln = int64(*f.LenOverride)
	}
	var code int64
	if f.Op == OpClose && len(f.Payload) >= 2 {
		code = int64(f.Payload[0])<<8 | int64(f.Payload[1])
	}
	websocket.VerifSink(websocket.VerifEvent{Conn: websocket.VerifConnID(c), Ev: "PeerSent", A: int64(f.Op), B: flags, D: ln, E: code})
}

// ---- stretching a window ----
// A hook is also a scheduler gate: the goroutine that logs event Ev on a registered connection is held there for a while, so that a
// window of a few nanoseconds in the code (a mutex taken and the flag it protects not yet raised, a lock wait that has just failed
// and the asynchronous closer not yet started ...) becomes wide enough for the other actors to run into it.  This only chooses a
// schedule; what the execution then does is judged by the trace specifications as always.

type stretchCfg struct {
	ev string
	d  time.Duration
}

var stretchTab sync.Map // connection id -> stretchCfg

// StretchPoints are the events a campaign may stretch: where the library has just taken or is about to release something others
// contend for.
var StretchPoints = []string{"CloseEnter", "ClosedPre", "ClosedPost", "CasClosingOK", "WgCloseMu", "RwcClosed", "CloseRcvd",
	"LockOK", "LockFailCtx", "WfHeader", "WfDisarm", "PingReg", "PongRcvd", "RdHeader", "MwClose", "CrStart"}

// Stretch registers c: whoever logs ev on it sleeps d. Unstretch removes the entry.
func Stretch(c *websocket.Conn, ev string, d time.Duration) {
	stretchTab.Store(websocket.VerifConnID(c), stretchCfg{ev, d})
}

func Unstretch(c *websocket.Conn) { stretchTab.Delete(websocket.VerifConnID(c)) }

// StretchGate is a Tracer.Gate.
func StretchGate(e websocket.VerifEvent) {
	if v, ok := stretchTab.Load(e.Conn); ok {
		if sc := v.(stretchCfg); sc.ev == e.Ev {
			time.Sleep(sc.d)
		}
	}
}
