// Package ws holds the parts of the conformance harness shared by all drivers:
// in-memory transports with fault injection, an independent raw WebSocket peer,
// builders that put a real *websocket.Conn on top of an arbitrary transport, and
// the global-order event tracer fed by the verif hooks.
package ws

import (
	"errors"
	"io"
	"net"
	"sync"
	"time"
)

// Stream is one direction of an in-memory transport.
type Stream struct {
	mu      sync.Mutex
	cond    *sync.Cond
	buf     []byte
	off     int
	eofErr  error      // returned by Read once buf is drained (set by CloseWrite)
	closed  bool       // hard close: Read and Write fail at once
	Chunk   int        // max bytes handed out per Read (0 = unlimited)
	ChunkFn func() int // if set, decides the max size of each Read
	Cap     int        // max buffered bytes before Write blocks (0 = unlimited)
	Total   int64      // bytes ever written
	stallAt int64      // if >0: Read never hands out bytes beyond this absolute offset
	readOff int64
	Tap     func(p []byte) // called under the lock with every written slice
}

func NewStream() *Stream {
	s := &Stream{}
	s.cond = sync.NewCond(&s.mu)
	return s
}

var ErrInjected = errors.New("injected transport error")

func (s *Stream) Write(p []byte) (int, error) {
	s.mu.Lock()
	defer s.mu.Unlock()
	n := 0
	for len(p) > 0 {
		if s.closed || s.eofErr != nil {
			return n, io.ErrClosedPipe
		}
		room := len(p)
		if s.Cap > 0 {
			room = s.Cap - (len(s.buf) - s.off)
			if room <= 0 {
				s.cond.Wait()
				continue
			}
			if room > len(p) {
				room = len(p)
			}
		}
		if s.Tap != nil {
			s.Tap(p[:room])
		}
		s.buf = append(s.buf, p[:room]...)
		s.Total += int64(room)
		n += room
		p = p[room:]
		s.cond.Broadcast()
	}
	return n, nil
}

func (s *Stream) Read(p []byte) (int, error) {
	s.mu.Lock()
	defer s.mu.Unlock()
	for {
		if s.closed {
			return 0, io.ErrClosedPipe
		}
		avail := len(s.buf) - s.off
		if s.stallAt > 0 {
			if lim := int(s.stallAt - s.readOff); avail > lim {
				avail = lim
			}
		}
		if avail > 0 && len(p) > 0 {
			n := avail
			if n > len(p) {
				n = len(p)
			}
			if s.Chunk > 0 && n > s.Chunk {
				n = s.Chunk
			}
			if s.ChunkFn != nil {
				if k := s.ChunkFn(); k > 0 && n > k {
					n = k
				}
			}
			copy(p, s.buf[s.off:s.off+n])
			s.off += n
			s.readOff += int64(n)
			if s.off == len(s.buf) {
				s.buf = s.buf[:0]
				s.off = 0
			}
			s.cond.Broadcast()
			return n, nil
		}
		if len(p) == 0 {
			return 0, nil
		}
		if s.eofErr != nil && len(s.buf)-s.off == 0 {
			return 0, s.eofErr
		}
		s.cond.Wait()
	}
}

// CloseWrite makes Read return err (io.EOF if nil) after the buffered bytes are drained.
func (s *Stream) CloseWrite(err error) {
	if err == nil {
		err = io.EOF
	}
	s.mu.Lock()
	if s.eofErr == nil {
		s.eofErr = err
	}
	s.cond.Broadcast()
	s.mu.Unlock()
}

// Close fails all pending and future calls.
func (s *Stream) Close() {
	s.mu.Lock()
	s.closed = true
	s.cond.Broadcast()
	s.mu.Unlock()
}

// StallAt makes the reader side never see bytes beyond absolute offset n (n>0).
func (s *Stream) StallAt(n int64) {
	s.mu.Lock()
	s.stallAt = n
	s.cond.Broadcast()
	s.mu.Unlock()
}

func (s *Stream) Closed() bool {
	s.mu.Lock()
	defer s.mu.Unlock()
	return s.closed
}

// SetCap changes the capacity (0 = unlimited) and wakes writers that wait for room.
func (s *Stream) SetCap(n int) {
	s.mu.Lock()
	s.Cap = n
	s.cond.Broadcast()
	s.mu.Unlock()
}

// Snapshot returns a copy of the bytes written and not yet read.
func (s *Stream) Snapshot() []byte {
	s.mu.Lock()
	defer s.mu.Unlock()
	return append([]byte(nil), s.buf[s.off:]...)
}

// Buffered returns the number of bytes written and not yet read.
func (s *Stream) Buffered() int {
	s.mu.Lock()
	defer s.mu.Unlock()
	return len(s.buf) - s.off
}

// End is one endpoint of a bidirectional in-memory transport. It implements net.Conn.
type End struct {
	In, Out *Stream
	once    sync.Once
	OnClose func()
}

// Pipe returns two connected ends: what a writes b reads and vice versa.
func Pipe() (a, b *End) {
	ab, ba := NewStream(), NewStream()
	return &End{In: ba, Out: ab}, &End{In: ab, Out: ba}
}

func (e *End) Read(p []byte) (int, error)  { return e.In.Read(p) }
func (e *End) Write(p []byte) (int, error) { return e.Out.Write(p) }
func (e *End) Close() error {
	e.once.Do(func() {
		e.In.Close()
		e.Out.CloseWrite(io.EOF)
		if e.OnClose != nil {
			e.OnClose()
		}
	})
	return nil
}

type addr struct{}

func (addr) Network() string { return "mem" }
func (addr) String() string  { return "mem" }

func (e *End) LocalAddr() net.Addr                { return addr{} }
func (e *End) RemoteAddr() net.Addr               { return addr{} }
func (e *End) SetDeadline(t time.Time) error      { return nil }
func (e *End) SetReadDeadline(t time.Time) error  { return nil }
func (e *End) SetWriteDeadline(t time.Time) error { return nil }
