#!/bin/sh
# Runs every registered check in the given tier once and prints one summary line per check.
# usage: run/alltiers.sh <quick|thorough> [seed]
tier=${1:-quick}; seed=${2:-1}
cd "$(dirname "$0")/.."
for p in $(python3 -c "import json;print(' '.join(c['property_id'] for c in json.load(open('MANIFEST.json'))['checks']))"); do
  start=$(date +%s)
  VERIF_SEED=$seed timeout 7200 bin/check $p $tier > /tmp/alltiers.$p.out 2>&1; rc=$?
  end=$(date +%s)
  echo "$p $tier seed=$seed exit=$rc $((end-start))s $(tail -1 /tmp/alltiers.$p.out | cut -c1-150)"
  grep "^VIOLATION\|^INFRA\|^KNOWN" /tmp/alltiers.$p.out | head -5
done
