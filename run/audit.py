#!/usr/bin/env python3
"""False-alarm audit: runs every registered check (shadow mode, scratch worktree) against property-preserving changes.

  audit.py <tier> <jobs> <patch> [<patch> ...]     # results appended to /verif/benign/results.jsonl

A benign patch on which a check reports a VIOLATION is either a false alarm of that check (to be corrected) or a change
that is not benign after all (to be shown against the real code); see DESIGN.md section 12."""
import json, os, subprocess, sys, time
from concurrent.futures import ThreadPoolExecutor
HOME = "/verif"


def one(tier, patch):
    t = time.time()
    p = subprocess.run(["python3", os.path.join(HOME, "run/seedtool.py"), "shadow", patch, "all", tier],
                       stdout=subprocess.PIPE, stderr=subprocess.STDOUT, text=True, cwd=HOME)
    res = {"patch": os.path.relpath(patch, HOME), "tier": tier, "wall_s": round(time.time() - t), "checks": {}}
    for l in p.stdout.splitlines():
        w = l.split()
        if len(w) >= 5 and w[3] == "exit":
            res["checks"][w[1]] = {"exit": int(w[4]), "detail": " ".join(w[6:])[:400]}
    res["alarms"] = sorted(k for k, v in res["checks"].items() if v["exit"] == 1)
    res["infra"] = sorted(k for k, v in res["checks"].items() if v["exit"] not in (0, 1))
    with open(os.path.join(HOME, "benign", "results.jsonl"), "a") as f:
        f.write(json.dumps(res) + "\n")
    print(res["patch"], "alarms=", res["alarms"], "infra=", res["infra"], "%ds" % res["wall_s"], flush=True)
    return res


if __name__ == "__main__":
    tier, jobs = sys.argv[1], int(sys.argv[2])
    with ThreadPoolExecutor(jobs) as ex:
        list(ex.map(lambda p: one(tier, os.path.abspath(p)), sys.argv[3:]))
