#!/usr/bin/env python3
import os, sys
sys.path.insert(0, os.path.dirname(os.path.abspath(__file__)))
from core import main
sys.exit(main())
