#!/usr/bin/env python3
"""Runner for the model-based checks of nhooyr/websocket (see DESIGN.md section 2.5).

  check.py <property> <quick|thorough> [--replay file]

Every verdict comes from behaviour of the real code (a replay mismatch or a rejected
implementation trace).  Infrastructure trouble is exit 2, never a violation.
"""
import json, os, re, shutil, subprocess, sys, time, glob

HOME = os.environ.get("VERIF_HOME", os.path.dirname(os.path.dirname(os.path.abspath(__file__))))
SPEC = os.path.join(HOME, "spec")
HARNESS = os.path.join(HOME, "harness")
# The implementation under test.  Registered commands always use /repo; VERIF_REPO exists only so that seeded changes can be
# tried on a scratch copy while /repo stays untouched (run/seedtool.py).
REPO = os.environ.get("VERIF_REPO", "/repo")
OUTDIR = HOME if REPO == "/repo" else os.path.join(REPO + ".out")   # shadow runs never touch /verif/evidence


def modfile_args(scratch):
    if REPO == "/repo":
        return []
    mod = os.path.join(scratch, "alt.mod")
    with open(os.path.join(HARNESS, "go.mod")) as f:
        txt = f.read().replace("=> /repo", "=> " + REPO)
    with open(mod, "w") as f:
        f.write(txt)
    shutil.copy(os.path.join(HARNESS, "go.sum"), os.path.join(scratch, "alt.sum"))
    return ["-modfile=" + mod]

SCRATCH_ROOT = os.environ.get("VERIF_SCRATCH", "/var/tmp/verif-scratch")
NCPU = os.cpu_count() or 4


class Infra(Exception):
    pass


class Ctx:
    def __init__(self, pid, tier, seed):
        self.pid, self.tier, self.seed = pid, tier, seed
        self.t0 = time.time()
        self.scratch = os.path.join(SCRATCH_ROOT, "%s-%d" % (pid, os.getpid()))
        shutil.rmtree(self.scratch, ignore_errors=True)
        os.makedirs(self.scratch)
        self.specdir = os.path.join(self.scratch, "spec")
        shutil.copytree(SPEC, self.specdir)
        self.states = 0
        self.transitions = 0
        self.mc_runs = []
        self.impl_traces = 0
        self.evaluations = 0
        self.distinct = 0
        self.samples = []
        self.extra = {}
        self.violations = []   # (sig, case, detail)
        self.known = []
        self.assumptions = []
        self._driver = None

    def quick(self):
        return self.tier == "quick"

    def path(self, name):
        return os.path.join(self.scratch, name)

    # ---- TLC ----
    def tlc(self, module, cfg, env=None, workers=None, args=(), timeout=1800, expect_ok=True, name=None, heap=None, coverage=False):
        meta = self.path("meta-%d" % len(self.mc_runs) + "-%d" % int(time.time() * 1000 % 100000))
        e = dict(os.environ)
        if env:
            e.update({k: str(v) for k, v in env.items()})
        w = workers or min(NCPU, 16)
        cfgp = cfg if os.path.isabs(cfg) else os.path.join(self.specdir, "cfg", cfg)
        jtmp = self.path("jtmp")
        os.makedirs(jtmp, exist_ok=True)
        java = ["java", "-XX:+UseParallelGC", "-Xss64m", "-Djava.io.tmpdir=" + jtmp]
        if heap:
            java.append("-Xmx" + heap)
        cmd = ["timeout", str(timeout)] + java + ["-cp", "/opt/veriftools/tla/tla2tools.jar:/opt/veriftools/tla/CommunityModules-deps.jar",
               "tlc2.TLC", "-workers", str(w), "-metadir", meta, "-config", cfgp] + (["-coverage", "1"] if coverage else []) + list(args) + [module + ".tla"]
        t = time.time()
        p = subprocess.run(cmd, cwd=self.specdir, env=e, stdout=subprocess.PIPE, stderr=subprocess.STDOUT, text=True)
        out = p.stdout
        shutil.rmtree(meta, ignore_errors=True)
        gen = dist = 0
        m = re.findall(r"(\d+) states generated, (\d+) distinct states found", out)
        if m:
            gen, dist = int(m[-1][0]), int(m[-1][1])
        ok = ("No error has been found" in out) and p.returncode == 0
        rec = {"module": module, "cfg": os.path.basename(cfgp), "generated": gen, "distinct": dist,
               "ok": ok, "wall_s": round(time.time() - t, 1), "name": name or module}
        if coverage:
            # vacuity control (DESIGN 9): how often each action of the module was taken in this run (last coverage report)
            acts = {}
            for a, d, g in re.findall(r"^<(\w+) line \d+, col \d+ to line \d+, col \d+ of module %s>: (\d+):(\d+)$" % module, out, re.M):
                acts[a] = int(g)
            rec["actions_taken"] = acts
            tot = self.extra.setdefault("model_action_counts", {}).setdefault(module, {})
            for a, g in acts.items():
                tot[a] = tot.get(a, 0) + g
            self.extra["model_actions_never_taken"] = {m: sorted(a for a, g in t.items() if g == 0 and a != "Init")
                                                       for m, t in self.extra["model_action_counts"].items()}
        self.mc_runs.append(rec)
        if p.returncode == 124:
            raise Infra("TLC timeout on %s/%s" % (module, cfg))
        if expect_ok and not ok:
            sys.stderr.write(out[-6000:])
            raise Infra("TLC did not finish cleanly on %s/%s (exit %d)" % (module, cfg, p.returncode))
        return rec, out

    def count_model(self, rec):
        self.states += rec["distinct"]
        self.transitions += rec["generated"]

    # ---- Go driver ----
    def driver(self):
        if self._driver:
            return self._driver
        out = self.path("wsdrive")
        p = subprocess.run(["go", "build"] + modfile_args(self.scratch) + ["-tags", "verif", "-o", out, "./cmd/wsdrive"], cwd=HARNESS,
                           stdout=subprocess.PIPE, stderr=subprocess.STDOUT, text=True)
        if p.returncode != 0:
            sys.stderr.write(p.stdout)
            raise Infra("harness does not build against /repo")
        self._driver = out
        return out

    def crashed_in_library(self, family, stderr, rc):
        """A driver that dies of a Go panic / fatal error raised inside the library (first goroutine of the crash report: the
        innermost frame that is neither runtime nor standard library belongs to nhooyr.io/websocket) is behaviour of the real
        code, not infrastructure trouble: it becomes the observation 'library-crashed'.  Anything else stays exit 2."""
        m = re.search(r"^(panic: |fatal error: |unexpected fault address)", stderr, re.M)
        if not m:
            return None
        blk = stderr[m.start():].split("\n\n")
        first = "\n\n".join(blk[:2]) if len(blk) > 1 else blk[0]
        frames = [l for l in first.splitlines() if l and not l.startswith(("\t", " ", "panic", "fatal", "unexpected", "goroutine", "[signal", "created by"))]
        own = None
        for f in frames:
            fn = f.split("(")[0]
            if fn.startswith("verifharness/ws.WithFaults"):
                continue    # the harness's fault wrapper re-raises a panic it is not looking for: the frames below it are the origin
            if fn.startswith(("runtime.", "runtime/", "panic(", "sync.", "sync/", "bufio.", "io.", "bytes.", "compress/", "encoding/", "strings.", "net.", "net/", "context.", "time.", "internal/", "reflect.", "errors.", "fmt.", "syscall.", "os.", "unicode/", "math/", "sort.", "strconv.")):
                continue
            own = fn
            break
        if own and own.startswith("nhooyr.io/websocket"):
            keep = os.path.join(OUTDIR, "replays", self.pid)
            os.makedirs(keep, exist_ok=True)
            dst = os.path.join(keep, "crash-%s.txt" % family)
            open(dst, "w").write(stderr[m.start():m.start() + 20000])
            return {"sig": "library-crashed", "detail": "driver %s died (exit %d): %s ... in %s" % (family, rc, first.splitlines()[0][:200], own),
                    "case": {"crash_report": dst}}
        return None

    def drive(self, family, args, timeout=3600, env=None):
        e = dict(os.environ)
        if env:
            e.update({k: str(v) for k, v in env.items()})
        cmd = ["timeout", str(timeout), self.driver(), family] + [str(a) for a in args]
        p = subprocess.run(cmd, stdout=subprocess.PIPE, stderr=subprocess.PIPE, text=True, env=e, cwd=self.scratch)
        if p.returncode != 0:
            cr = self.crashed_in_library(family, p.stderr, p.returncode)
            if cr:
                return {"family": family, "evaluations": 0, "sigs": {"library-crashed": 1}, "mismatches": [cr]}
            sys.stderr.write(p.stderr[-4000:])
            raise Infra("driver %s exited %d" % (family, p.returncode))
        try:
            rep = json.loads(p.stdout.strip().splitlines()[-1])
        except Exception as ex:
            sys.stderr.write(p.stdout[-2000:] + p.stderr[-2000:])
            raise Infra("driver %s produced no report: %s" % (family, ex))
        return rep

    def drive_sharded(self, family, args, n, timeout=3600):
        """Run n processes of one driver family, each on its own shard of the rows (-shard k -of n), and merge the reports.
        Used where a case needs a process to itself (goroutine dumps, fatal errors attributable to a case)."""
        drv = self.driver()
        procs = []
        for k in range(n):
            cmd = ["timeout", str(timeout), drv, family] + [str(a) for a in args] + ["-shard", str(k), "-of", str(n)]
            procs.append(subprocess.Popen(cmd, stdout=subprocess.PIPE, stderr=subprocess.PIPE, text=True, cwd=self.scratch))
        merged = {"family": family, "evaluations": 0, "distinct": 0, "rows": 0, "sigs": {}, "mismatches": [], "samples": [], "extra": {}}
        for k, p in enumerate(procs):
            out, err = p.communicate()
            if p.returncode != 0:
                cr = self.crashed_in_library(family, err, p.returncode)
                if cr:
                    merged["sigs"]["library-crashed"] = merged["sigs"].get("library-crashed", 0) + 1
                    merged["mismatches"].append(cr)
                    continue
                sys.stderr.write(err[-3000:])
                for q in procs:
                    if q.poll() is None:
                        q.kill()
                raise Infra("driver %s shard %d exited %d" % (family, k, p.returncode))
            try:
                rep = json.loads(out.strip().splitlines()[-1])
            except Exception as ex:
                raise Infra("driver %s shard %d produced no report: %s" % (family, k, ex))
            merged["evaluations"] += rep.get("evaluations", 0)
            merged["rows"] = max(merged["rows"], rep.get("rows", 0))
            merged["distinct"] = max(merged["distinct"], rep.get("distinct", 0))
            for sg, c in (rep.get("sigs") or {}).items():
                merged["sigs"][sg] = merged["sigs"].get(sg, 0) + c
            merged["mismatches"] += rep.get("mismatches") or []
            merged["samples"] += (rep.get("samples") or [])[:1]
        return merged

    def absorb(self, rep, only=None, ignore=()):
        """Fold a driver report into the verdict.  only/ignore select signatures that belong to this property."""
        self.evaluations += rep.get("evaluations", 0)
        self.impl_traces += rep.get("evaluations", 0)
        self.distinct += rep.get("distinct", 0)
        for s in rep.get("samples") or []:
            if len(self.samples) < 4:
                self.samples.append(s)
        for k, v in (rep.get("extra") or {}).items():
            self.extra[rep["family"] + "." + k] = v
        first = {}
        for m in rep.get("mismatches") or []:
            first.setdefault(m["sig"], m)
        for sig, n in (rep.get("sigs") or {}).items():
            if only is not None and sig not in only and sig != "library-crashed":
                continue
            if sig in ignore:
                continue
            self.violations.append((sig, n, first.get(sig)))


def load_known():
    out = []
    p = os.path.join(HOME, "KNOWN_FINDINGS.jsonl")
    if os.path.exists(p):
        for l in open(p):
            l = l.strip()
            if l:
                out.append(json.loads(l))
    return out


def finish(ctx, level="model_checking"):
    known = [k for k in load_known() if k.get("status") == "known" and k.get("property") == ctx.pid]
    rc = 0
    nviol = 0
    for sig, n, m in ctx.violations:
        hit = [k for k in known if k.get("sig") == sig]
        if hit:
            print("KNOWN-FINDING: property=%s %s (%d occurrences; signature %s)" % (ctx.pid, hit[0].get("what", sig), n, sig))
            continue
        d = os.path.join(OUTDIR, "replays", ctx.pid)
        os.makedirs(d, exist_ok=True)
        rp = os.path.join(d, re.sub(r"[^A-Za-z0-9_.-]", "_", sig)[:80] + ".json")
        json.dump({"property": ctx.pid, "sig": sig, "occurrences": n, "mismatch": m, "seed": ctx.seed, "tier": ctx.tier}, open(rp, "w"), indent=1)
        print("VIOLATION property=%s replay=%s" % (ctx.pid, rp))
        if m:
            print("  signature=%s detail=%s" % (sig, (m.get("detail") or "")[:300]))
        rc = 1
        nviol += 1
    cov = {
        "states": max(ctx.states, 0), "transitions": max(ctx.transitions, 0),
        "traces_validated_against_impl": ctx.impl_traces,
        "samples": ctx.samples or [{"note": "no sample recorded"}],
        "evaluations": ctx.evaluations, "distinct_nontrivial": ctx.distinct,
        "model_runs": ctx.mc_runs, "exhaustive": bool(ctx.extra.get("exhaustive", False)),
    }
    cov.update({k: v for k, v in ctx.extra.items() if k != "exhaustive"})
    ev = {"property_id": ctx.pid, "tier": ctx.tier, "seed": ctx.seed, "level": level, "coverage": cov,
          "assumptions": ctx.assumptions, "wall_s": round(time.time() - ctx.t0, 1), "violations": nviol}
    os.makedirs(os.path.join(OUTDIR, "evidence"), exist_ok=True)
    json.dump(ev, open(os.path.join(OUTDIR, "evidence", ctx.pid + ".json"), "w"), indent=1)
    print("%s %s seed=%d: states=%d transitions=%d impl_runs=%d wall=%.1fs -> %s" % (
        ctx.pid, ctx.tier, ctx.seed, ctx.states, ctx.transitions, ctx.impl_traces, time.time() - ctx.t0,
        "VIOLATION" if rc else "ok"))
    return rc


CHECKS = {}


def check(pid):
    def deco(fn):
        CHECKS[pid] = fn
        return fn
    return deco


def main():
    if len(sys.argv) < 3:
        print(__doc__)
        return 2
    pid, tier = sys.argv[1], sys.argv[2]
    tier = os.environ.get("VERIF_TIER", tier)
    seed = int(os.environ.get("VERIF_SEED", "1"))
    sys.path.insert(0, os.path.join(HOME, "run"))
    import props  # noqa: registers checks
    if pid not in CHECKS:
        print("no check registered for", pid)
        return 2
    replay = None
    want_sig = None
    if "--replay" in sys.argv:
        # a replay file records the seed, tier and signature of a violation: the check is re-run with the
        # same seed and tier (all generation is seeded) and reports whether that signature occurs again
        replay = sys.argv[sys.argv.index("--replay") + 1]
        try:
            rf = json.load(open(replay))
            seed, tier, want_sig = int(rf.get("seed", seed)), rf.get("tier", tier), rf.get("sig")
        except Exception as ex:
            print("INFRA: cannot read replay file: %s" % ex)
            return 2
    ctx = Ctx(pid, tier, seed)
    try:
        try:
            CHECKS[pid](ctx, replay)
        except Infra:
            raise
        except Exception as ex:
            # a failure of the machinery itself is never a verdict (exit 2) -- unless a violation of the real code had already been
            # observed (e.g. the library crashed a driver, and a later step then misses that driver's output): it is reported
            import traceback
            traceback.print_exc()
            if not ctx.violations:
                raise Infra("check procedure failed: %r" % ex)
        rc = finish(ctx)
        if want_sig is not None:
            again = any(sig == want_sig for sig, _, _ in ctx.violations)
            print("REPLAY %s: signature %s %s with seed=%d tier=%s" % (replay, want_sig, "REPRODUCED" if again else "not reproduced", seed, tier))
        return rc
    except Infra as ex:
        print("INFRA: %s" % ex)
        return 2
    finally:
        if not os.environ.get("VERIF_KEEP"):
            shutil.rmtree(ctx.scratch, ignore_errors=True)


if __name__ == "__main__":
    sys.exit(main())


REJ = re.compile(r'<<\s*"REJECTED",\s*(\d+),\s*"([^"]+)",\s*(\[.*?\])\s*>>', re.S)


def trace_validate(ctx, module, cfg, trace_file, name=None):
    """(C) validate a recorded implementation trace against a trace specification.
    Returns the list of (line index, reason, event text) rejections; TLC trouble is Infra."""
    nlines = sum(1 for _ in open(trace_file))
    if nlines == 0:
        return [], 0
    env = {"TRACE_FILE": trace_file, "JAVA_TOOL_OPTIONS": "-Dtlc2.tool.queue.IStateQueue=StateDeque"}
    rec, out = ctx.tlc(module, cfg, env=env, workers=1, expect_ok=False, name=name or module, timeout=3600)
    rej = [(int(a), b, " ".join(c.split())) for a, b, c in REJ.findall(out)]
    accepted = "No error has been found" in out
    if not accepted and not rej:
        sys.stderr.write(out[-5000:])
        raise Infra("trace validation of %s failed without a rejection (TLC error)" % trace_file)
    if rec["generated"] < nlines and not rej:
        raise Infra("trace validation stopped early: %d states for %d lines" % (rec["generated"], nlines))
    ctx.extra.setdefault("trace_events_validated", 0)
    ctx.extra["trace_events_validated"] += nlines
    return rej, nlines


def absorb_rejections(ctx, rej, family, trace_file, only=None):
    """Turn trace rejections into violation signatures (the reason string is the signature)."""
    by = {}
    for idx, why, ev in rej:
        sig = why.split(":")[0]
        by.setdefault(sig, []).append((idx, why, ev))
    for sig, items in by.items():
        if only is not None and sig not in only:
            continue
        keep = os.path.join(OUTDIR, "replays", ctx.pid)
        os.makedirs(keep, exist_ok=True)
        dst = os.path.join(keep, "%s-trace-%s.ndjson" % (family, re.sub(r"[^A-Za-z0-9_.-]", "_", sig)[:60]))
        try:
            # keep the connection's slice of the trace around the first rejection
            lines = open(trace_file).read().splitlines()
            i0 = items[0][0] - 1
            a = i0
            while a > 0 and '"TraceReset"' not in lines[a] and '"WireReset"' not in lines[a] and '"PoolReset"' not in lines[a] and '"NcReset"' not in lines[a]:
                a -= 1
            b = i0 + 1
            while b < len(lines) and '"TraceReset"' not in lines[b] and '"WireReset"' not in lines[b] and '"PoolReset"' not in lines[b] and '"NcReset"' not in lines[b]:
                b += 1
            open(dst, "w").write("\n".join(lines[a:b]) + "\n")
        except Exception:
            dst = trace_file
        ctx.violations.append((sig, len(items), {"sig": sig, "detail": "%s rejected at line %d: %s | event %s" % (family, items[0][0], items[0][1], items[0][2][:300]),
                                                   "case": {"trace": dst, "line_in_full_trace": items[0][0]}}))


def recv_validate(ctx, trace_file, only, name="TraceRecv"):
    """(C) the inbound side: a per-connection hook trace (TraceReset between connections) is partitioned by
    'permessage-deflate negotiated' (ConnNew.b) and each part replayed through WSRecv's decoder by TraceRecv.tla."""
    parts = {True: ctx.path("recv_on_%d.ndjson" % len(ctx.mc_runs)), False: ctx.path("recv_off_%d.ndjson" % len(ctx.mc_runs))}
    fh = {k: open(v, "w") for k, v in parts.items()}
    cur, fl, nconn = [], False, 0

    def flush():
        nonlocal cur, fl, nconn
        if cur:
            fh[fl].write("".join(cur))
            nconn += 1
        cur, fl = [], False
    for l in open(trace_file):
        if '"TraceReset"' in l:
            flush()
        elif '"ConnNew"' in l:
            try:
                fl = json.loads(l).get("b", 0) != 0
            except Exception:
                pass
        cur.append(l if l.endswith("\n") else l + "\n")
    flush()
    for f in fh.values():
        f.close()
    total = 0
    for fl, path in parts.items():
        if os.path.getsize(path) == 0:
            continue
        rej, n = trace_validate(ctx, "TraceRecv", "TraceRecv.%s.cfg" % ("on" if fl else "off"), path, name="%s(%s)" % (name, "deflate" if fl else "plain"))
        total += n
        absorb_rejections(ctx, rej, "TraceRecv", path, only=only)
    ctx.extra["recv_trace_connections"] = ctx.extra.get("recv_trace_connections", 0) + nconn
    return total


def send_validate(ctx, trace_file, only, name="TraceSend"):
    """(C) the outbound message pipeline: msgWriter events and frames of a per-connection hook trace against TraceSend.tla."""
    if not os.path.exists(trace_file) or os.path.getsize(trace_file) == 0:
        return 0
    rej, n = trace_validate(ctx, "TraceSend", "TraceSend.cfg", trace_file, name=name)
    absorb_rejections(ctx, rej, "TraceSend", trace_file, only=only)
    return n


def refine_validate(ctx, n, only=None, kind="mix"):
    """(C, refinement) executions of the scenario WSConn.quick.cfg model-checks, replayed through WSConn's OWN actions by
    TraceRefine.tla (one action per hook event, unlogged steps silent): each execution must be a behaviour of WSConn."""
    trace = ctx.path("refine.ndjson")
    rep = ctx.drive("refine", ["-n", n, "-seed", ctx.seed, "-conn-trace", trace, "-kind", kind], timeout=1800)
    ctx.absorb(rep, only=only)      # an execution whose calls never returned (every call of the scenario is bounded)
    ctx.impl_traces += rep.get("evaluations", 0)
    # one TLC run per (role, scenario): "-n" = the executions with a fifth actor N calling CloseNow (Extra "N" in the configuration)
    # "-ctx" = the executions whose Writer and Ping contexts the application cancels at seeded moments (CtxProcs = {A, P})
    # "-cr" = nobody calls Read: the CloseRead goroutine is the reader (Extra "CR"), the peer may send a data message
    parts = {k: ctx.path("refine_%s.ndjson" % k) for k in ("client", "server", "client-n", "server-n", "client-ctx", "server-ctx", "client-cr", "server-cr")}
    fh = {k: open(v, "w") for k, v in parts.items()}
    cur, role, kind = [], None, ""

    def flush():
        nonlocal cur, role, kind
        if cur and role is not None:
            fh[role + kind].write("".join(cur))
        cur, role, kind = [], None, ""
    for l in open(trace):
        if '"TraceReset"' in l:
            flush()
        elif '"ConnNew"' in l:
            role = "client" if json.loads(l).get("a") == 1 else "server"
        elif '"Actor"' in l:
            a = json.loads(l).get("s")
            kind = "-n" if a == "N" else "-ctx" if a == "X" else kind
        elif '"Scenario"' in l and json.loads(l).get("s") == "cr":
            kind = "-cr"
        cur.append(l)
    flush()
    for f in fh.values():
        f.close()
    skipped = 0
    for role, path in parts.items():
        if os.path.getsize(path) == 0:
            continue
        nlines = sum(1 for _ in open(path))
        env = {"TRACE_FILE": path, "JAVA_TOOL_OPTIONS": "-Dtlc2.tool.queue.IStateQueue=StateDeque"}
        rec, out = ctx.tlc("TraceRefine", "TraceRefine.%s.cfg" % role, env=env, workers=1, expect_ok=False, name="TraceRefine(%s)" % role, timeout=3000)
        rej = [(int(a), b, " ".join(c.split())) for a, b, c in REJ.findall(out)]
        if "No error has been found" not in out and not rej:
            if "is violated" in out:
                # an invariant of WSConn failed in a state reached by replaying a real execution
                ctx.violations.append(("invariant-of-WSConn-violated-on-a-real-execution", 1,
                                       {"sig": "invariant-of-WSConn-violated-on-a-real-execution", "detail": out[out.find("Error: Invariant"):][:600], "case": {"trace": path}}))
                continue
            sys.stderr.write(out[-4000:])
            raise Infra("TraceRefine failed without a rejection (TLC error)")
        m = re.search(r'"R3-SKIPPED",\s*(\d+)', out)
        skipped += int(m.group(1)) if m else 0
        ctx.extra["trace_events_validated"] = ctx.extra.get("trace_events_validated", 0) + nlines
        absorb_rejections(ctx, rej, "TraceRefine", path, only=only)
    ctx.extra["refinement_executions_replayed_through_WSConn"] = ctx.extra.get("refinement_executions_replayed_through_WSConn", 0) + rep.get("evaluations", 0)
    ctx.extra["refinement_executions_cut_short_by_R3_reordering"] = ctx.extra.get("refinement_executions_cut_short_by_R3_reordering", 0) + skipped


def deadline_validate(ctx, n, only=None):
    """(C, refinement) concurrent executions of the NetConn deadline machinery (driver ncconc: a reader, a writer and a goroutine
    setting deadlines on a real adapter, timer callbacks in between), one sub-trace per (connection, direction), replayed through
    WSDeadline's OWN actions by TraceDeadline.tla: each must be a behaviour of the model-checked specification, and its invariants
    are evaluated in every state on the way."""
    trace = ctx.path("ncconc.ndjson")
    rep = ctx.drive("ncconc", ["-n", n, "-seed", ctx.seed, "-trace", trace], timeout=1800)
    ctx.absorb(rep, only=only)
    ctx.impl_traces += rep.get("distinct", 0)
    if not os.path.exists(trace) or os.path.getsize(trace) == 0:
        raise Infra("ncconc wrote no trace")
    nlines = sum(1 for _ in open(trace))
    env = {"TRACE_FILE": trace, "JAVA_TOOL_OPTIONS": "-Dtlc2.tool.queue.IStateQueue=StateDeque"}
    rec, out = ctx.tlc("TraceDeadline", "TraceDeadline.cfg", env=env, workers=1, expect_ok=False, name="TraceDeadline", timeout=3000)
    rej = [(int(a), b, " ".join(c.split())) for a, b, c in REJ.findall(out)]
    if "No error has been found" not in out and not rej:
        if "is violated" in out:
            ctx.violations.append(("invariant-of-WSDeadline-violated-on-a-real-execution", 1,
                                   {"sig": "invariant-of-WSDeadline-violated-on-a-real-execution", "detail": out[out.find("Error: Invariant"):][:900], "case": {"trace": trace}}))
            return
        sys.stderr.write(out[-4000:])
        raise Infra("TraceDeadline failed without a rejection (TLC error)")
    ctx.extra["trace_events_validated"] = ctx.extra.get("trace_events_validated", 0) + nlines
    ctx.extra["deadline_executions_replayed_through_WSDeadline"] = rep.get("distinct", 0)
    ctx.extra["deadline_events"] = rep.get("extra", {}).get("deadline_events")
    absorb_rejections(ctx, rej, "TraceDeadline", trace, only=only)
    if rej:
        return
    # binding self-test (DESIGN 9): one recorded field corrupted -- the entry check of a call that found its deadline passed (the
    # last SetDeadline of that direction was for a time in the past) is turned into "not expired" -- must make the trace a
    # non-behaviour at exactly that line; if TLC accepts it the trace specification constrains nothing and the check is broken
    lines = open(trace).read().splitlines()
    last_cls, victim = None, None
    for i, l in enumerate(lines):
        if '"NcReset"' in l:
            last_cls = None
        elif '"NcSetBegin"' in l:
            last_cls = json.loads(l)["b"]
        elif '"NcEntry"' in l and last_cls == 1 and json.loads(l)["b"] == 1:
            victim = i
            break
    if victim is None:
        ctx.extra["deadline_binding_selftest"] = "no candidate line in this run"
        return
    e = json.loads(lines[victim])
    e["b"] = 0
    bad = ctx.path("ncconc_corrupt.ndjson")
    open(bad, "w").write("\n".join(lines[:victim] + [json.dumps(e)] + lines[victim + 1:victim + 40]) + "\n")
    rec, out = ctx.tlc("TraceDeadline", "TraceDeadline.cfg", env={"TRACE_FILE": bad, "JAVA_TOOL_OPTIONS": "-Dtlc2.tool.queue.IStateQueue=StateDeque"},
                       workers=1, expect_ok=False, name="TraceDeadline(corrupted: must be rejected)", timeout=600)
    rej2 = [int(a) for a, b, c in REJ.findall(out)]
    if rej2 != [victim + 1]:
        raise Infra("binding self-test failed: a corrupted deadline trace was not rejected at the corrupted line (%s)" % rej2)
    ctx.extra["deadline_binding_selftest"] = "corrupted NcEntry at line %d rejected there" % (victim + 1)


def split_by_conn(src, dst):
    """Regroup a global-order hook trace per connection (order within a connection kept), TraceReset between."""
    by, order = {}, []
    for l in open(src):
        l = l.strip()
        if not l:
            continue
        try:
            c = json.loads(l).get("c", 0)
        except Exception:
            continue
        if c not in by:
            by[c] = []
            order.append(c)
        by[c].append(l)
    n = 0
    with open(dst, "w") as f:
        for c in order:
            f.write(json.dumps({"c": c, "g": 0, "ev": "TraceReset", "l": "", "s": "", "a": 0, "b": 0, "d": 0, "e": 0}) + "\n")
            for l in by[c]:
                f.write(l + "\n")
                n += 1
    return n, len(order)


def repo_tests_traced(ctx, only_conn, only_pool=None):
    """Source 4 of DESIGN 2.2: the repository's own tests, built with -tags verif, write their hook events to a
    file; the traces are validated like any other (the CCF lesson: existing tests trigger more than they assert)."""
    raw = ctx.path("repotests.ndjson")
    e = dict(os.environ)
    e["VERIF_TRACE_FILE"] = raw
    p = subprocess.run(["timeout", "900", "go", "test", "-tags", "verif", "-vet=off", "-count=1", "-timeout", "800s", "."], cwd=REPO,
                       env=e, stdout=subprocess.PIPE, stderr=subprocess.STDOUT, text=True)
    if not os.path.exists(raw) or os.path.getsize(raw) == 0:
        raise Infra("repository tests produced no trace (exit %d): %s" % (p.returncode, p.stdout[-500:]))
    ctx.extra["repo_tests_exit"] = p.returncode
    per = ctx.path("repotests-perconn.ndjson")
    n, conns = split_by_conn(raw, per)
    ctx.extra["repo_test_events"] = n
    ctx.extra["repo_test_connections"] = conns
    ctx.impl_traces += conns
    rej, _ = trace_validate(ctx, "TraceConn", "TraceConn.loose.cfg", per, name="TraceConn(repo tests)")
    absorb_rejections(ctx, rej, "TraceConn", per, only=only_conn)
    recv_validate(ctx, per, only_conn, name="TraceRecv(repo tests)")
    send_validate(ctx, per, only_conn, name="TraceSend(repo tests)")
    if only_pool is not None:
        glob_ = ctx.path("repotests-global.ndjson")
        with open(glob_, "w") as f:
            f.write(json.dumps({"c": 0, "g": 0, "ev": "PoolReset", "l": "", "s": "", "a": 0, "b": 0, "d": 0, "e": 0}) + "\n")
            f.write(open(raw).read())
        rej, _ = trace_validate(ctx, "TracePool", "TracePool.cfg", glob_, name="TracePool(repo tests)")
        absorb_rejections(ctx, rej, "TracePool", glob_, only=only_pool)
