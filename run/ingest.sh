#!/bin/sh
# usage: run/ingest.sh seed <round-letter> C06 ... | benign C13C14 ...   -- files the output of a seeding sub-agent under /verif
kind=$1; shift
cd /verif
if [ "$kind" = seed ]; then r=$1; shift; fi
for x in "$@"; do
  if [ "$kind" = seed ]; then
    timeout 900 python3 run/seedtool.py confirm ${x}_$r $x /tmp/seed${r}_$x/OUT/patch.diff /tmp/seed${r}_$x/OUT/demo_test.go /tmp/seed${r}_$x/OUT/notes.md 2>&1 | grep -v "_tail" | tr -d '\n'; echo
  else
    for i in 1 2 3 4; do [ -f /tmp/benign_$x/OUT/benign$i.diff ] && cp /tmp/benign_$x/OUT/benign$i.diff benign/${x}_$i.diff; done
    cp /tmp/benign_$x/OUT/benign.md benign/$x.md; ls benign/${x}_*.diff
  fi
done
