#!/usr/bin/env python3
"""Regenerates /verif/MANIFEST.json from the table below (keeps it schema-valid at all times)."""
import json, os, subprocess
HOME = os.path.dirname(os.path.dirname(os.path.abspath(__file__)))

MC = "model_checking"
CHECKS = {
 "C04": dict(
   technique="TLA+ reference decoder with transport cuts (WSRecv!RunCut) evaluated by TLC over all valid streams; every byte offset of every stream replayed into the real Conn with EOF and error terminations and compared with the specification; TLC trace validation (spec/TraceRecv.tla, which reuses WSRecv's action PeerSend) of the library's own read-side hook events: a clean end of message only after a completely consumed FIN frame",
   text="TLC enumerates every valid stream of <=3 (quick) / <=4 (thorough) frames and predicts, per cut class, which messages are complete, which bytes may have been handed over and that the final read fails; the harness cuts the concrete byte stream at every offset (EOF and injected error), in both roles, several read-buffer sizes and through Conn.Reader and Conn.Read. Exhaustive within the bound.",
   note="Trusted: TLC, Go compress/flate, the harness frame encoder and its offset-to-cut-class mapping.",
   design="6/C04"),
 "C08": dict(
   technique="TLA+ read-limit rule (WSRecv!LimitOutcome) evaluated by TLC over limits x sizes x fragmentations x compression; rows replayed into the real Conn; allocation measured around the receive; TLC trace validation (spec/TraceRecv.tla) of the bytes handed over per message against the limit in force when the message started",
   text="TLC writes the expected outcome (deliver in full / fail after at most limit+1 bytes with Close 1009) for every row of the limit grammar including limit changes between messages, huge declared lengths and decompression bombs; the harness replays them in both roles with three read-buffer sizes and measures TotalAlloc sequentially for the memory clause.",
   note="Trusted: TLC, Go compress/flate. The memory bound is a measured quantity with fixed slack (512 KiB), not derived by TLC.",
   design="6/C08"),
 "C16": dict(
   technique="TLA+ model of the concurrent endpoint (spec/WSConn.tla) checked by TLC for NothingAfterClose over all interleavings; hook traces of seeded concurrent executions validated by TLC against TraceConn.tla and the frames a raw peer records until EOF against TraceWire.tla (WSFrame!WireStep); executions of the model's own scenario replayed through WSConn's actions with NothingAfterClose evaluated in every state (TraceRefine.tla)",
   text="TLC explores every interleaving of a streaming writer, pinger, reader, closer, timeoutLoop and a peer that may echo early/late/never (quick 0.4M, thorough 24M distinct states) and must also catch the two pre-fix deviations; 300 (quick) / 4000 (thorough) seeded concurrent executions of the real Conn are trace-validated: the library's own emission order (WfHeader hook under writeFrameMu) and the wire as seen by an independent peer must both satisfy 'no data frame and no second Close after a Close frame'.",
   note="Schedules on the real code are sampled, not enumerated; hooks log under the lock that protects the emission (rule R1). Trusted: TLC, raw peer parser (its header bytes are re-decoded by TLC).",
   design="6/C16"),
 "C05": dict(
   technique="TLA+ model WSConn (FrameAtomic, NoMsgInterleave, MutexOK) checked by TLC; TLC trace validation of hook events (lock discipline R2/R3, frame atomicity, message ownership) and of the peer-observed wire; refinement check of real executions of the model's own scenario through WSConn's own actions (TraceRefine.tla); Go race detector as auxiliary oracle for the data-race clause",
   text="Model: all interleavings within the constants. Code: seeded concurrent executions (1-3 writers with Write/Writer, pingers, reader, closer) over a perturbing transport; every lock/unlock/emit event is validated by TraceConn.tla, every frame by TraceWire.tla, every message the peer reassembles is matched to exactly one written message in per-writer order; the same executions run again under -race with the sink nil. Refinement: 200+200 (quick) / 1500+1500 (thorough) executions of the model's scenarios (incl. cancelled contexts, a context cancelled between two chunks with a second writer queued, peer pings) are replayed through WSConn's own actions with NoMsgInterleave / NoMsgInsideUnfinished / FrameAtomic evaluated in every state; a third to a half of all executions run with one hook event held by a scheduler gate so that nanosecond windows are actually visited; driver closetake replays the history of the defect fixed in 03b1726.",
   note="The memory-model part ('no data race') is decided by the Go race detector, not by TLC. Schedules are sampled.",
   design="6/C05"),
 "C15": dict(
   technique="TLA+ model WSConn (PingNilOnlyAfterPong, PongOnlyForPing) checked by TLC; trace validation of PingReg/PongRcvd/PingRes hook events (TraceConn.tla) and of Pong echo order and payload on the wire (TraceWire.tla)",
   text="TLC checks that Ping returns nil only after its own Pong under every interleaving incl. foreign and unsolicited pongs; on the real code every Ping result is validated against the recorded pong notifications and every Pong frame the peer receives must echo the next unanswered Ping payload in order (pings placed before, between and inside fragmented messages).",
   note="Schedules are sampled. Trusted: TLC, raw peer.",
   design="6/C15"),
 "C20": dict(
   technique="TLA+ model WSConn (CloseReturnedClean) checked by TLC; trace validation of goroutine start/exit hooks against Close/CloseNow return events (TraceConn.tla)",
   text="TLC checks that Close returns only after the timeoutLoop has exited under every interleaving; on the real code TLStart/TLExit/CrStart/CrExit and CloseRet/CloseNowRet events of seeded executions (all closer kinds, CloseRead, abandoned writers) are validated: no library goroutine started before the call is alive when it returns.",
   note="Exit hooks are deferred so that they run before the done channels are closed (no false alarm from logging order). Schedules are sampled.",
   design="6/C20"),
 "C06": dict(
   technique="TLA+ decision table (spec/WSCloseRows.tla from WSBase!ValidWireCode/Sendable) evaluated by TLC over all status codes and reason lengths and replayed through the real Close and as incoming Close frames; WSConn model + TLC trace validation of concurrent executions for 'closed for good'",
   text="TLC writes what Close(code, reason) must emit/return for every code -1..65536 (and 2^31-1) and boundary reason lengths, and how every 16-bit code must be reported when received; the harness replays all ~197k rows in both roles against a raw peer (echoing, answering another code, silent). Seeded concurrent executions are trace-validated (TraceConn.tla) and probed after closing: every Read/Write/Ping fails, later Close/CloseNow match net.ErrClosed.",
   note="Exhaustive over codes; Close returning nil without a matching echo is recorded but not judged (the statement only fixes the echo case).",
   design="6/C06"),
 "C17": dict(
   technique="TLA+ symbolic masking model (spec/WSMask.tla: reference pattern, rotation algebra, composition theorem, path model of maskGo's unrolled loops) checked by TLC; TLC-written table replayed into maskGo, mask() and the amd64 assembly over the full length x alignment grid",
   text="TLC proves composability for all lengths <=24 and splits, checks the block decomposition of maskGo for every length 0..300 against the reference pattern, and writes the expected key-byte index pattern and returned rotation for every length 0..4200; the harness runs every length x alignment 0..63 x implementation with distinguishable key bytes, guard bytes and page-boundary placement and compares position by position.",
   note="Byte-level XOR and out-of-bounds behaviour are observed (projection, guards, page faults), not derived by TLC; arm64 assembly is not executable here.",
   design="6/C17"),
 "C11": dict(
   technique="TLA+ decision operator WSHandshake!AcceptDecision evaluated by TLC over the request grammar (one TLC state per request, declarative invariants restating the recursive subprotocol selection); rows replayed through the real Accept with wire-form requests",
   text="TLC enumerates the request grammar (method, version, multi-line/multi-token Connection and Upgrade headers, version values, nine key variants, subprotocol lists), checks declarative invariants of the decision, and writes the expected outcome per row; the harness builds each request in wire form, parses it with net/http, calls Accept with a hijackable ResponseWriter and compares upgrade/status class/accept key/subprotocol; pipelined frames go through a real net/http server on loopback.",
   note="SHA-1/base64 computed independently by the harness; for invalid requests only '>=400 and not hijacked' is judged.",
   design="6/C11"),
 "C12": dict(
   technique="TLA+ operator WSHandshake!AuthDecision with a structural origin grammar and token-level Glob; TLC cross-checks Glob against an independent NFA matcher (model checking) and writes the decision table replayed through the real Accept",
   text="46512 (Host, Origin, patterns, skip) rows decided by TLC and replayed through Accept: must-accept rows get 101, must-refuse rows 403 without hijack; forms that name no host are left open as in the statement.",
   note="URL structure per RFC 3986 is the reference for what 'names a host'; open rows are recorded, not judged.",
   design="6/C12"),
 "C13": dict(
   technique="TLA+ operator WSHandshake!VerifyResponse evaluated by TLC over the response grammar (one TLC state per response) and replayed through the real Dial with a scripted RoundTripper; request inspection over all DialOptions combinations",
   text="30720 (quick) response rows x client modes decided by TLC and replayed: Dial must return a connection exactly for acceptable responses; the request the library sends is inspected for 90 option combinations (override attempts of Upgrade/Connection/Key/Version, Host override, subprotocols, extension offer) and key freshness across all dials.",
   note="Case-variant subprotocol answers are left open. SHA-1 computed independently.",
   design="6/C13"),
 "C14": dict(
   technique="TLA+ operators ServerSelect/ClientVerify with the theorem Agree checked by TLC; decision tables over offer lists and response shapes replayed through real Accept/Dial, each successful handshake followed by a compressed exchange with a reference peer applying the agreed parameters",
   text="TLC checks Agree for all mode pairs, fallback/echo invariants on every offer list, and writes expected selections; the harness compares the real response header, rejects what must be rejected, and then exchanges 4+4 cross-referencing compressed messages with a raw peer using compress/flate with exactly the negotiated context-takeover flags, so a flag taken from the wrong side fails to decode.",
   note="Go compress/flate is the reference codec; responses from non-compliant servers are outside the statement.",
   design="6/C14"),
 "C09": dict(
   technique="TLA+ liveness with timers as separately enabled actions (spec/WSClose.tla, WSConn liveness config): 'is this timer needed' is decided by TLC with the timer's action removed; TLC-written adversary x state table replayed against the real code with real timers",
   text="TLC checks that Close ends with only the two 5 s timers enabled and that the CloseRead context is cancelled with no timer at all, and that the two pre-fix deviations violate these properties; 228 adversary scripts x local states x operations x roles run concurrently on the real Conn and durations are compared with 3 s + 5 s per timer the specification allows; the WgTimeout hook flags any reliance on the 15 s backstop. Refinement executions with a CloseNow actor (150 quick / 1500 thorough), half of them with one teardown step held by a hook gate, must be behaviours of WSConn and every call of the scenario must return (each is bounded).",
   note="Seconds are measured (3 s slack, process otherwise idle); TLC decides only which timers a path may need.",
   design="6/C09"),
 "C10": dict(
   technique="TLA+ abstraction of the timeoutLoop discipline (spec/WSTimeout.tla) checked by TLC and discharged as an inductive invariant by Apalache; TLC-generated programs replayed on real connections; TLC trace validation of the context hand-off protocol (TraceConn.tla)",
   text="Harmless (a context of a successfully returned call never closes the connection) holds for unbounded programs by Apalache's inductive check (init + step; the variant without the hand-back fails the step), TLC checks bounded programs; 84-210 programs x role x compression are run with each context cancelled after success or while blocked (transport, mid-message, message lock, pong) and their hook traces are validated: every context handed to the timeoutLoop matches what the sender logged, and no fired context belongs to a successful call.",
   note="'promptly' is 2 s measured. The abstraction is bound to the code through the hand-off rules checked on traces, not by a proof.",
   design="6/C10"),
 "C07": dict(
   technique="TLA+ ownership model of pooled decompressors across connections (spec/WSPool.tla) checked by TLC, pre-fix deviation must be caught; TLC trace validation (TracePool.tla) of all pool Get/Put/Use-interval events of several connections in one global order; connection-tagged payload provenance on the same executions",
   text="TLC checks UseImpliesOwner/NoSharedOwner for two connections and two objects over every program of 8 steps (start, read part, read to end, read again, close); on the real code 300 (quick) / 4000 (thorough) seeded programs over 2-3 live connections (incl. the scripted hand-over and closes injected mid-message) are run in one goroutine so that sync.Pool reuse is deterministic; every byte returned is attributed to its connection and every pool event is validated: no use of an object the connection does not own, no put during an open use interval, no hand-out while owned.",
   note="Object identity is the address (never dereferenced); objects of closed connections are treated as dropped. Pool reuse affects what is reached, never the verdict.",
   design="6/C07"),
 "C01": dict(
   technique="TLA+ models of the message pipeline (spec/WSPair.tla: which window a compressed message depends on vs. which dictionary the receiver holds; WSTrim.tla and WSWindow.tla: exact transcriptions) checked by TLC incl. two deviation regressions; TLC-generated behaviours replayed into the real trim writer / sliding window; TLC-enumerated programs run on a real client/server pair",
   text="TLC checks Fidelity/DictAgree for takeover, no-takeover and uncompressed directions with messages longer than the window, and every behaviour of the trim writer and sliding window against their invariants; all those unit behaviours (11110 + 3x~1100) are replayed into the real objects byte by byte; 4266 (quick) / 12798+ (thorough) programs x both directions run through the real handshake in all 3x3 modes and three thresholds with framing-boundary, window-crossing and >1 MiB sizes, comparing every delivery and the caller's buffers.",
   note="DEFLATE itself is compress/flate on both ends (opaque).",
   design="6/C01"),
 "C02": dict(
   technique="TLA+ frame codec (WSFrame!EncodeHeader/DecodeHeader model-checked for round trip and minimality) and sender grammar WSFrame!WireStep; TLC trace validation (TraceWire.tla) of the raw bytes each endpoint writes, tapped on the transport and parsed by an independent peer; WSConn model for the concurrent part",
   text="For TLC-enumerated Write/Writer programs in both roles and under every agreement incl. the asymmetric ones (foreign offers/answers), an independent decoder reassembles and inflates the tapped stream with the agreed takeover flags and must recover exactly the written messages; TLC re-decodes every raw header and checks masking by role, mask-key refresh, minimal lengths, control-frame rules, fragment order, RSV bits and Close bodies over each frame sequence; concurrent executions add Ping/Close traffic.",
   note="The independent decoder's header parsing is itself re-done by TLC on the raw bytes; traces longer than 400 frames are checked by the harness only.",
   design="6/C02"),
 "C18": dict(
   technique="TLA+ model of the net.Conn adapter (spec/WSNetConn.tla: stream equality, EOF mapping, wrong type, idle vs active deadlines) checked by TLC; every behaviour up to a depth replayed on the real adapter with the timer branch read from hooks; TLA+ model of the deadline machinery at the grain of the code (spec/WSDeadline.tla) checked by TLC incl. three deviation regressions, and TLC trace validation (TraceDeadline.tla EXTENDS WSDeadline) of concurrent executions of a real adapter replayed through the model's own actions",
   text="TLC checks StreamEq/EOFMap/IdleKeepsOpen on all behaviours of <=5 operations (0.56M states) and writes every enabled behaviour of <=3 (quick, 2891) / <=4 (thorough, 39797) operations with the observation each call must report; the harness replays them on a real adapter in both roles, both message types and 2-3 unit sizes. 300 (quick) / 4000 (thorough) concurrent executions (reader, writer, a goroutine setting deadlines, timer callbacks) are recorded at the adapter's linearization points and each (connection, direction) must be a behaviour of WSDeadline, its invariants evaluated in every state.",
   note="Which branch a deadline timer took comes from the NcTimerIdle/NcTimerActive hooks, not from timing.",
   design="6/C18"),
 "C19": dict(
   technique="TLA+ model of wsjson (spec/WSJson.tla: one text message per value, 1007 on invalid documents, pooled-buffer aliasing) checked by TLC incl. a deviation regression; TLC-enumerated JSON shapes x targets x faults replayed through the real wsjson.Read/Write; bpool events validated by TracePool.tla",
   text="The harness checks on the wire that Write emits exactly one text message with a JSON-equivalent document, and that Read consumes exactly one message and either yields the value encoding/json yields for the same bytes and target or fails with Close 1007 and a closed connection; earlier results are re-inspected after later reads on concurrent connections for aliasing of the pooled buffer.",
   note="JSON codec fidelity is encoding/json's; the specification covers message/close/pool behaviour around it.",
   design="6/C19"),
 "C03": dict(
   technique="TLA+ reference decoder (spec/WSRecv.tla) model-checked by TLC; TLC-generated behaviours (all frame streams up to a length bound) replayed into the real Conn and compared with the specification's predicted reaction; TLC trace validation (spec/TraceRecv.tla): the library's read-side hook events of sampled connections are replayed through WSRecv's own action PeerSend and every reaction (message start, control processing, close, bytes handed over, frame alignment, headers parsed = headers sent) is compared with React",
   text="TLC checks the reference decoder automaton and enumerates every frame stream of <=3 (quick) / <=4 (thorough) letters over a 43-letter alphabet of valid and single-violation frames; each is serialised by an independent raw peer and fed to a real Conn in both roles, compression modes and transport chunkings; messages, Pongs, Close echo, failing read and absence of panics are compared with React/Run. Exhaustive within the alphabet and length bound.",
   note="Trusted: TLC, Go compress/flate as reference codec, the harness frame encoder (written from RFC 6455). UTF-8, non-minimal lengths and output of malformed DEFLATE are left unspecified as in the property.",
   design="6/C03"),
}

def main():
    props = [json.loads(l) for l in open(os.path.join(HOME, "properties.jsonl"))]
    hooks = subprocess.run(["git", "-C", "/repo", "log", "--format=%h %s"], stdout=subprocess.PIPE, text=True).stdout.splitlines()
    hook_commits = [l.split()[0] for l in hooks if l.split(" ", 1)[1].startswith("verif:")]
    m = {
     "version": 1,
     "setup_cmd": "bin/setup",
     "hooks": {
       "guard": "verif",
       "enable": "go build -tags verif (the harness module /verif/harness replaces nhooyr.io/websocket with /repo, so every check rebuilds the library from /repo's working tree with hooks on)",
       "baseline_off_cmd": "cd /repo && export GOFLAGS=-mod=mod && go test -vet=off -count=1 -timeout 25m ./... && cd internal/thirdparty && go test -vet=off -count=1 -timeout 25m ./...",
       "source_commits": hook_commits,
       "add_only": True,
     },
     "engines": [
       {"name": "tlc", "path": "spec/", "serves_properties": sorted(CHECKS), "kind_free_text": "explicit TLA+ specification checked by TLC; row/behaviour generators evaluated by TLC"},
       {"name": "wsdrive", "path": "harness/cmd/wsdrive", "serves_properties": sorted(CHECKS), "kind_free_text": "Go conformance harness: replays TLC tables/behaviours into the real library (built with -tags verif) and records hook traces for TLC trace validation"},
     ],
     "checks": [],
     "notes": "Verdicts come only from behaviour of the real code (replay mismatch or rejected implementation trace); model-only counterexamples and infrastructure trouble exit 2. Known findings live in KNOWN_FINDINGS.jsonl.",
     "not_applicable": [],
    }
    for p in props:
        pid = p["id"]
        if pid in CHECKS:
            c = CHECKS[pid]
            m["checks"].append({
              "property_id": pid,
              "quick_cmd": "bin/check %s quick" % pid,
              "thorough_cmd": "bin/check %s thorough" % pid,
              "evidence_file": "evidence/%s.json" % pid,
              "replay_cmd_template": "bin/check %s quick --replay {path}" % pid,
              "engine": "tlc+wsdrive",
              "level_claimed": {"category": MC, "text": c["text"], "design_ref": c["design"]},
              "level_note": c["note"],
              "technique": c["technique"],
            })
        else:
            m["not_applicable"].append({"property_id": pid, "reason": "check not built yet in this round (planned per DESIGN.md section 6; the technique applies)"})
    json.dump(m, open(os.path.join(HOME, "MANIFEST.json"), "w"), indent=1)

main()
