#!/bin/sh
# usage: run/mutbuild.sh <patch.diff|-> <out-binary>   builds the wsdrive harness against a scratch worktree of /repo with the patch applied
set -e
wt=/var/tmp/verif-scratch/mutbuild_$$
mkdir -p /var/tmp/verif-scratch
git -C /repo worktree add -q --detach $wt HEAD
trap "git -C /repo worktree remove --force $wt; rm -f $wt.mod $wt.sum" EXIT
[ "$1" = "-" ] || git -C $wt apply "$1"
sed "s#=> /repo#=> $wt#" /verif/harness/go.mod > $wt.mod
cp /verif/harness/go.sum $wt.sum
cd /verif/harness && GOFLAGS=-mod=mod GOPROXY=off GOSUMDB=off GOTOOLCHAIN=local go build -modfile=$wt.mod -tags verif -o "$2" ./cmd/wsdrive
