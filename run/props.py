"""Per-property check procedures (DESIGN.md section 6)."""
import json, os
from core import check, Infra


def recv_rows(ctx, mode, n, flate, out):
    rec, txt = ctx.tlc("WSRecvRows", "WSRecvRows.cfg", env={"MODE": mode, "N": n, "FLATE": 1 if flate else 0, "OUT": out},
                       workers=4, name="rows-%s-N%d-flate%d" % (mode, n, flate))
    return rec


def letters(ctx):
    p = ctx.path("letters.ndjson")
    if not os.path.exists(p):
        recv_rows(ctx, "letters", 0, True, p)
    return p


@check("C03")
def c03(ctx, replay):
    # (M) the reference decoder as a state machine: every stream of <= MaxFrames letters
    mf = 3 if ctx.quick() else 4
    cfg = ctx.path("c03mc.cfg")
    open(cfg, "w").write(open(os.path.join(ctx.specdir, "cfg", "WSRecv.mc.cfg")).read().replace("MaxFrames = 3", "MaxFrames = %d" % mf))
    for fl in ("TRUE", "FALSE"):
        c2 = ctx.path("c03mc_%s.cfg" % fl)
        open(c2, "w").write(open(cfg).read().replace("Flate = TRUE", "Flate = %s" % fl))
        rec, _ = ctx.tlc("WSRecv", c2, name="decoder-automaton-flate-%s" % fl)
        ctx.count_model(rec)
    # (B) every stream of <= N letters, both roles, replayed into the real Conn
    n = 3 if ctx.quick() else 4
    lp = letters(ctx)
    off, on = ctx.path("c03off.ndjson"), ctx.path("c03on.ndjson")
    recv_rows(ctx, "c03", n, False, off)
    recv_rows(ctx, "c03", n, True, on)
    chunks = "whole,one" if ctx.quick() else "whole,one,rand"
    modes = "ct,nct" if ctx.quick() else "ct,nct,c_nct,s_nct"
    rep = ctx.drive("recv", ["-letters", lp, "-rows-off", off, "-rows-on", on, "-seed", ctx.seed, "-chunks", chunks, "-modes-on", modes])
    ctx.absorb(rep)
    ctx.extra["exhaustive"] = True
    ctx.extra["rule"] = ("every frame stream of at most %d letters over the 43-letter alphabet of spec/WSRecv.tla "
                         "(valid frames and single-violation frames) that stops at its first terminal letter, "
                         "x role x compression mode x transport chunking; distinct = distinct letter sequences" % n)
    ctx.assumptions += ["TLC and the CommunityModules Json writer", "Go compress/flate as reference DEFLATE codec",
                        "harness frame encoder (ws/rawpeer.go) written from RFC 6455 5.2"]
