"""Per-property check procedures (DESIGN.md section 6)."""
import json, os
import core
from core import check, Infra


def recv_rows(ctx, mode, n, flate, out):
    rec, txt = ctx.tlc("WSRecvRows", "WSRecvRows.cfg", env={"MODE": mode, "N": n, "FLATE": 1 if flate else 0, "OUT": out},
                       workers=4, name="rows-%s-N%d-flate%d" % (mode, n, flate))
    return rec


def letters(ctx):
    p = ctx.path("letters.ndjson")
    if not os.path.exists(p):
        recv_rows(ctx, "letters", 0, True, p)
    return p


@check("C03")
def c03(ctx, replay):
    # (M) the reference decoder as a state machine: every stream of <= MaxFrames letters
    mf = 3 if ctx.quick() else 4
    cfg = ctx.path("c03mc.cfg")
    open(cfg, "w").write(open(os.path.join(ctx.specdir, "cfg", "WSRecv.mc.cfg")).read().replace("MaxFrames = 3", "MaxFrames = %d" % mf))
    for fl in ("TRUE", "FALSE"):
        c2 = ctx.path("c03mc_%s.cfg" % fl)
        open(c2, "w").write(open(cfg).read().replace("Flate = TRUE", "Flate = %s" % fl))
        rec, _ = ctx.tlc("WSRecv", c2, name="decoder-automaton-flate-%s" % fl)
        ctx.count_model(rec)
    # (B) every stream of <= N letters, both roles, replayed into the real Conn
    n = 3 if ctx.quick() else 4
    lp = letters(ctx)
    off, on = ctx.path("c03off.ndjson"), ctx.path("c03on.ndjson")
    recv_rows(ctx, "c03", n, False, off)
    recv_rows(ctx, "c03", n, True, on)
    chunks = "whole,one,split2" if ctx.quick() else "whole,one,split2,rand"
    modes = "ct,nct,c_nct,s_nct"     # the asymmetric agreements too: the inflater follows the SENDER's side of the agreement
    sizes = "120-130,4085-4105,8180-8200" if ctx.quick() else "120-130,4080-4112,8176-8208,12270-12300,32755-32780,65525-65545"
    rtrace = ctx.path("c03recv.ndjson")
    rep = ctx.drive("recv", ["-letters", lp, "-rows-off", off, "-rows-on", on, "-seed", ctx.seed, "-chunks", chunks, "-modes-on", modes, "-sizes", sizes,
                            "-fuzz", 20000 if ctx.quick() else 400000, "-recv-trace", rtrace, "-trace-every", 20 if ctx.quick() else 40], timeout=7200)
    ctx.absorb(rep)
    # (C) the library's own account of what it read (hook events of every 20th connection) replayed through WSRecv's decoder
    core.recv_validate(ctx, rtrace, SIG_RECV_C03)
    ctx.extra["exhaustive"] = True
    ctx.extra["rule"] = ("every frame stream of at most %d letters over the 43-letter alphabet of spec/WSRecv.tla "
                         "(valid frames and single-violation frames) that stops at its first terminal letter, "
                         "x role x compression mode x transport chunking; distinct = distinct letter sequences" % n)
    ctx.assumptions += ["TLC and the CommunityModules Json writer", "Go compress/flate as reference DEFLATE codec",
                        "harness frame encoder (ws/rawpeer.go) written from RFC 6455 5.2"]


def decoder_model(ctx, mf):
    """(M) the reference decoder automaton, both with and without permessage-deflate."""
    base = open(os.path.join(ctx.specdir, "cfg", "WSRecv.mc.cfg")).read().replace("MaxFrames = 3", "MaxFrames = %d" % mf)
    for fl in ("TRUE", "FALSE"):
        c2 = ctx.path("recvmc_%s.cfg" % fl)
        open(c2, "w").write(base.replace("Flate = TRUE", "Flate = %s" % fl))
        rec, _ = ctx.tlc("WSRecv", c2, name="decoder-automaton-flate-%s" % fl)
        ctx.count_model(rec)


@check("C04")
def c04(ctx, replay):
    decoder_model(ctx, 3)
    n = 3 if ctx.quick() else 4
    lp = letters(ctx)
    off, on = ctx.path("c04off.ndjson"), ctx.path("c04on.ndjson")
    recv_rows(ctx, "c04", n, False, off)
    recv_rows(ctx, "c04", n, True, on)
    args = ["-letters", lp, "-rows-off", off, "-rows-on", on, "-seed", ctx.seed]
    if ctx.quick():
        args += ["-bufs", "1,512", "-modes-on", "ct", "-chunks", "whole"]
    else:
        args += ["-bufs", "1,7,512,32768", "-modes-on", "ct,nct", "-chunks", "whole,rand", "-stride", "5"]
    # the adapters over Conn.Reader too: NetConn.Read (byte stream) and wsjson.Read (JSON bodies, incl. a value that is complete
    # before the message is: white space or empty fragments still to come)
    args += ["-apis", "reader,read,netconn,wsjson"]
    rtrace = ctx.path("c04recv.ndjson")
    args += ["-recv-trace", rtrace, "-trace-every", 40 if ctx.quick() else 200]
    rep = ctx.drive("cut", args, timeout=7200)
    ctx.absorb(rep)
    # (C) end-of-message events of the sampled connections against the decoder state (a clean end needs a completely read FIN frame)
    core.recv_validate(ctx, rtrace, SIG_RECV_C04 | SIG_RECV_FRAMING)
    ctx.extra["exhaustive"] = True
    ctx.extra["rule"] = ("every valid stream of at most %d frames (fragmented, empty fragments, interleaved ping/pong, compressed) "
                         "cut at EVERY byte offset 0..len, ended by EOF and by a transport error, x role x read-buffer size x "
                         "Conn.Reader/Conn.Read/NetConn.Read/wsjson.Read (JSON bodies spanning the message, or complete before its last fragments); distinct = (stream, frames complete, cut class) triples" % n)
    ctx.assumptions += ["TLC", "Go compress/flate as reference codec", "harness frame encoder written from RFC 6455 5.2"]


@check("C08")
def c08(ctx, replay):
    decoder_model(ctx, 3)
    rows, arows = ctx.path("c08.ndjson"), ctx.path("c08alloc.ndjson")
    recv_rows(ctx, "c08", 0, True, rows)
    recv_rows(ctx, "c08alloc", 0, True, arows)
    args = ["-rows", rows, "-alloc-rows", arows, "-seed", ctx.seed]
    if ctx.quick():
        pass
    rtrace = ctx.path("c08recv.ndjson")
    args += ["-recv-trace", rtrace, "-trace-every", 4 if ctx.quick() else 2]
    rep = ctx.drive("limit", args)
    ctx.absorb(rep)
    # (C) bytes handed over per message against the limit in force when the message started
    core.recv_validate(ctx, rtrace, SIG_RECV_C08 | SIG_RECV_C04)
    ctx.extra["exhaustive"] = not ctx.quick()
    ctx.extra["rule"] = ("limits {-1,0,1,125,4096,32768(default, with and without SetReadLimit),65536} x sizes {L-1,L,L+1,2L+3,40L,7} x 6 "
                         "fragmentations x compressed/plain, two-message programs changing the limit in between, declared lengths "
                         "2^31/2^40/2^63-1 and 1 MiB/8 MiB zero bombs (allocation measured sequentially); x role x read buffer {7,4096,70000}; "
                         "distinct = distinct TLC rows")
    ctx.assumptions += ["heap use is a measured TotalAlloc delta with 512 KiB fixed slack, not a modelled quantity"]


# ---------------------------------------------------------------------------------------------
# Concurrent core: WSConn model (M) + seeded concurrent executions validated by TraceConn/TraceWire (C)

from core import trace_validate, absorb_rejections, repo_tests_traced, deadline_validate

SIG_C05 = {"read-step-without-read-lock", "lock-acquired-while-held", "lock-acquired-after-connection-closed", "forcelock-acquired-while-held",
           "frame-step-without-frame-lock", "frame-emitted-without-frame-lock", "data-frame-without-message-lock",
           "data-frame-by-non-owner-of-message", "saw-closed-before-close", "closed-twice", "closed-post-without-pre",
           "close-bookkeeping", "new-message-inside-message", "continuation-without-message",
           "peer-received-corrupt-message", "message-delivered-twice", "per-writer-order-broken",
           "acknowledged-message-never-arrived", "library-reader-message-mismatch", "data-race", "panic",
           # "the emitted stream stays well-formed" under concurrency: the frame grammar of what the concurrent actors emitted
           # (e.g. a control frame from another goroutine inheriting header state of the data frame written just before it)
           "rsv1-on-control-frame", "rsv1-on-continuation", "rsv2-or-rsv3-set", "fragmented-control-frame", "header-undecodable",
           "masking-wrong-for-role", "length-not-minimally-encoded", "unknown-opcode", "rsv1-without-negotiated-deflate"}
SIG_C16 = {"second-close-frame", "data-frame-after-close-frame"}
SIG_C02 = {"masking-wrong-for-role", "rsv2-or-rsv3-set", "length-not-minimally-encoded", "unknown-opcode",
           "fragmented-control-frame", "control-frame-longer-than-125", "rsv1-on-control-frame", "close-body-not-sendable",
           "rsv1-on-continuation", "rsv1-without-negotiated-deflate", "new-message-inside-message", "continuation-without-message",
           "header-undecodable", "length-beyond-2^31", "mask-key-not-refreshed", "mask-key-reused", "second-close-frame", "data-frame-after-close-frame",
           "peer-received-corrupt-message"}
SIG_C15 = {"ping-returned-nil-without-its-own-pong", "pong-matched-against-wrong-ping-set", "pong-does-not-echo-next-ping",
           "ping-frame-payload-is-not-a-registered-ping", "two-ping-frames-in-flight-with-the-same-payload",
           "ping-returned-nil-although-its-pong-was-withheld"}
SIG_C20 = {"library-goroutine-alive-when-close-returned", "close-returned-with-connection-open", "timeoutloop-exited-with-connection-open",
           "closeread-goroutine-exited-with-connection-open"}
SIG_C10 = {"timeoutloop-received-other-write-context", "write-context-handoff-never-received", "timeoutloop-received-unsent-write-context",
           "timeoutloop-received-other-read-context", "read-context-handoff-never-received", "timeoutloop-received-unsent-read-context",
           "context-of-successful-call-closed-the-connection", "timeoutloop-fired-unarmed-read-context", "timeoutloop-fired-unarmed-write-context"}
SIG_C09 = {"closenow-did-not-return", "call-on-closed-connection-did-not-return", "close-needed-the-15s-goroutine-backstop", "conc-actors-pending", "conc-reader-pending", "conc-peer-no-eof",
           "close-took-too-long", "closenow-returned-error"}
SIG_C06 = {"close-returned-with-connection-open", "received-close-echoed-with-another-code", "unsendable-close-code-marshalled", "invalid-close-code-accepted",
           "close-frame-after-marshal-error", "write-succeeded-after-close", "ping-succeeded-after-close",
           "read-succeeded-after-close", "close-after-close-not-ErrClosed", "closenow-after-close-not-ErrClosed"}


# signatures of TraceRecv.tla (inbound side of every recorded execution, replayed through WSRecv's decoder)
SIG_RECV_FRAMING = {"frame-header-parsed-inside-previous-payload", "frame-parsed-that-the-peer-never-sent", "frame-header-differs-from-the-one-sent",
                    "payload-read-beyond-the-frame", "control-payload-not-of-the-current-frame"}
SIG_RECV_C03 = SIG_RECV_FRAMING | {"control-frame-with-violation-processed", "violating-frame-acted-on", "invalid-close-frame-accepted",
                                   "message-started-from-a-violating-frame", "message-start-does-not-match-its-first-frame",
                                   "close-reported-without-a-close-frame", "close-error-differs-from-the-frame", "bytes-handed-over-without-a-message"}
SIG_RECV_C04 = {"clean-end-of-an-incomplete-message", "message-reported-complete-with-bytes-missing", "more-bytes-handed-over-than-received-for-the-message"}
SIG_RECV_C08 = {"more-than-limit-plus-one-bytes-handed-over", "message-beyond-the-limit-reported-complete", "read-limit-error-before-the-limit"}
SIG_RECV_C15 = {"pong-written-without-a-received-ping", "pong-does-not-echo-the-next-received-ping", "pong-processing-for-a-frame-that-is-not-a-pong"}
# signatures of TraceSend.tla (outbound message pipeline of every recorded execution)
SIG_SEND_C05 = {"message-started-without-the-message-lock", "writer-step-without-the-writer-lock", "chunk-written-without-an-open-message",
                "message-closed-without-an-open-message"}
SIG_SEND_C02 = {"message-compressed-without-negotiated-deflate", "compression-decision-changed-inside-a-message", "first-frame-opcode-is-not-the-message-type",
                "later-frame-of-a-message-is-not-a-continuation", "rsv1-does-not-match-the-compression-decision", "frame-payload-differs-from-the-declared-length"}
SIG_SEND_C01 = {"message-bytes-on-the-wire-differ-from-the-bytes-written", "compression-decision-changed-inside-a-message"}
SIG_SEND_C06 = {"close-frame-on-the-wire-differs-from-the-close-requested", "close-frame-written-without-a-close-request"}
SIG_SEND_ALL = SIG_SEND_C05 | SIG_SEND_C02 | SIG_SEND_C01 | SIG_SEND_C06
SIG_C02 |= SIG_SEND_C02 | SIG_SEND_C01
SIG_C05 |= SIG_SEND_C05 | SIG_SEND_C01
SIG_RECV_ALL = SIG_RECV_C03 | SIG_RECV_C04 | SIG_RECV_C08 | SIG_RECV_C15
SIG_C05 |= SIG_RECV_FRAMING | SIG_RECV_C04
SIG_C15 |= SIG_RECV_C15
SIG_C06 |= SIG_SEND_C06
SIG_C06 |= {"invalid-close-frame-accepted", "close-error-differs-from-the-frame", "close-reported-without-a-close-frame"}


def wsconn_model(ctx, cfgs):
    for c in cfgs:
        # thorough tier: per-action coverage of every configuration; an action of WSConn that no configuration of this check
        # ever takes is listed in the evidence (model_actions_never_taken)
        rec, _ = ctx.tlc("WSConn", "WSConn.%s.cfg" % c, name="WSConn-" + c, timeout=6000, coverage=not ctx.quick())
        ctx.count_model(rec)


def wsconn_deviation_regression(ctx, devs):
    """The model must catch the pre-fix behaviour (guards against a vacuous model)."""
    caught = {}
    for d in devs:
        rec, out = ctx.tlc("WSConn", "WSConn.dev-%s.cfg" % d, expect_ok=False, name="WSConn-dev-" + d)
        caught[d] = "is violated" in out
        if not caught[d]:
            raise Infra("model regression: deviation %s is no longer caught by TLC (model became vacuous)" % d)
    ctx.extra["model_catches_deviation"] = caught


def conc_campaign(ctx, n, only, extra_args=()):
    conn, wire = ctx.path("conn.ndjson"), ctx.path("wire.ndjson")
    rep = ctx.drive("conc", ["-n", n, "-seed", ctx.seed, "-conn-trace", conn, "-wire-trace", wire] + list(extra_args), timeout=3000)
    ctx.absorb(rep, only=only)
    rej, _ = trace_validate(ctx, "TraceConn", "TraceConn.cfg", conn, name="TraceConn")
    absorb_rejections(ctx, rej, "TraceConn", conn, only=only)
    rej, _ = trace_validate(ctx, "TraceWire", "TraceWire.cfg", wire, name="TraceWire")
    absorb_rejections(ctx, rej, "TraceWire", wire, only=only)
    if only is None or (set(only) & SIG_RECV_ALL):
        core.recv_validate(ctx, conn, only)
    if only is None or (set(only) & SIG_SEND_ALL):
        core.send_validate(ctx, conn, only)
    ctx.extra["rule"] = ("seeded concurrent executions of the real Conn (1-3 writers using Write and streaming Writer, 0-2 pingers, "
                         "reader loop / CloseRead / none, closer in {Close, CloseNow, context cancel, peer Close, none}) against an "
                         "independent raw peer over a chunking, optionally zero-window transport with yields at hooks; every hook event "
                         "validated by TraceConn.tla, every frame the peer saw until EOF by TraceWire.tla; distinct = distinct "
                         "(role, mode, actors, closer, echo, window) configurations")


SIG_REFINE = {"not-a-behaviour-of-WSConn", "invariant-of-WSConn-violated-on-a-real-execution", "refine-scenario-calls-did-not-return"}


@check("C16")
def c16(ctx, replay):
    wsconn_model(ctx, ["quick", "quick-server"] if ctx.quick() else ["quick", "quick-server", "thorough"])
    wsconn_deviation_regression(ctx, ["DataAfterClose", "EchoAfterOwnClose"])
    # refinement: real executions of the model's own scenario replayed through WSConn's actions (NothingAfterClose and the
    # other invariants of the configuration evaluated in every state on the way)
    core.refine_validate(ctx, 200 if ctx.quick() else 1500, only=SIG_REFINE)
    conc_campaign(ctx, 300 if ctx.quick() else 4000, SIG_C16)
    if not ctx.quick():
        repo_tests_traced(ctx, SIG_C16)
    ctx.assumptions += ["raw peer frame parser cross-checked by TLC on the raw header bytes", "schedules are sampled (seeded), the model is exhaustive within its constants"]


@check("C05")
def c05(ctx, replay):
    wsconn_model(ctx, ["quick", "quick-server", "twowriters"] if ctx.quick() else ["quick", "quick-server", "twowriters", "thorough"])
    # a streaming writer whose Close fails keeps the message lock (the unfinished message stays on the wire): the model with the
    # lock released on every return path must be violated
    wsconn_deviation_regression(ctx, ["UnlockOnFailure"])
    core.refine_validate(ctx, 200 if ctx.quick() else 1500, only=SIG_REFINE)
    # ... and the scenario with cancelled contexts (incl. a context the application cancels between two chunks of an open message
    # while a second writer is queued behind the message lock)
    core.refine_validate(ctx, 200 if ctx.quick() else 1500, only=SIG_REFINE, kind="ctx")
    # Close takes over the read side while the application's reader is parked on the read lock, and lets go of the lock before the
    # connection is closed (window stretched by a hook gate): the reader fails, or returns bytes of ITS message (fixed: 03b1726)
    rep = ctx.drive("closetake", ["-n", 15 if ctx.quick() else 150], timeout=1200)
    ctx.absorb(rep)
    conc_campaign(ctx, 300 if ctx.quick() else 4000, SIG_C05)
    repo_tests_traced(ctx, SIG_C05 - {"data-frame-by-non-owner-of-message"})
    race_campaign(ctx, 150 if ctx.quick() else 1500)
    ctx.assumptions += ["'no data race' is decided by the Go race detector on the same executions with the hook sink nil (rule R10)"]


def race_campaign(ctx, n):
    """Auxiliary oracle for the data-race clause: same executions, race detector on, sink nil."""
    import subprocess
    out = ctx.path("wsdrive-race")
    p = subprocess.run(["go", "build", "-race"] + core.modfile_args(ctx.scratch) + ["-tags", "verif", "-o", out, "./cmd/wsdrive"], cwd=os.path.join(os.environ.get("VERIF_HOME", "/verif"), "harness"),
                       stdout=subprocess.PIPE, stderr=subprocess.STDOUT, text=True)
    if p.returncode != 0:
        raise Infra("race build failed: " + p.stdout[-2000:])
    logp = ctx.path("race")
    e = dict(os.environ)
    e["GORACE"] = "halt_on_error=0 log_path=%s" % logp
    p = subprocess.run(["timeout", "3000", out, "conc", "-n", str(n), "-seed", str(ctx.seed), "-notrace", "-par", "6"],
                       stdout=subprocess.PIPE, stderr=subprocess.PIPE, text=True, env=e, cwd=ctx.scratch)
    if p.returncode not in (0, 66):
        cr = ctx.crashed_in_library("conc(-race)", p.stderr, p.returncode)
        if cr:
            ctx.violations.append(("library-crashed", 1, cr))
            return
        raise Infra("race run exited %d: %s" % (p.returncode, p.stderr[-1500:]))
    import glob
    reports = 0
    first = None
    for f in glob.glob(logp + ".*"):
        txt = open(f).read()
        for blk in txt.split("WARNING: DATA RACE")[1:]:
            if "nhooyr.io/websocket." in blk:
                reports += 1
                first = first or blk[:3000]
    try:
        rep = json.loads(p.stdout.strip().splitlines()[-1])
        ctx.absorb(rep, only=SIG_C05)
    except Exception:
        raise Infra("race run produced no report")
    ctx.extra["race_detector_runs"] = n
    ctx.extra["race_reports_in_library"] = reports
    if reports:
        rp = ctx.path("race-report.txt")
        keep = os.path.join(os.environ.get("VERIF_HOME", "/verif"), "replays", ctx.pid)
        os.makedirs(keep, exist_ok=True)
        dst = os.path.join(keep, "race-report.txt")
        open(dst, "w").write(first)
        ctx.violations.append(("data-race", reports, {"sig": "data-race", "detail": first[:600], "case": {"report": dst}}))


@check("C15")
def c15(ctx, replay):
    wsconn_model(ctx, ["quick"] if ctx.quick() else ["quick", "thorough"])
    conc_campaign(ctx, 300 if ctx.quick() else 3000, SIG_C15)


@check("C20")
def c20(ctx, replay):
    # async: Close, CloseNow and the asynchronous closer of an expired lock wait (go m.c.close()) racing; shutdown: Close, CloseNow, CloseRead
    wsconn_model(ctx, ["quick", "async"] if ctx.quick() else ["quick", "async", "shutdown", "thorough"])
    wsconn_deviation_regression(ctx, ["NoWaitForCloser"])
    # (M) the life cycle at API level: every history of <= 5 operations, every ending; (B) the histories of <= 2 (quick) / 3
    # operations x every ending run on real connections one at a time, library-created goroutines counted from a full dump
    rec, _ = ctx.tlc("WSLife", "WSLife.cfg", workers=4, name="connection-life-cycle")
    ctx.count_model(rec)
    rows = ctx.path("life.ndjson")
    ctx.tlc("WSLifeRows", "WSLifeRows.cfg", env={"OUT": rows, "N": 2 if ctx.quick() else 3}, workers=2, name="life-histories")
    rep = ctx.drive_sharded("life", ["-rows", rows], min(core.NCPU, 16), timeout=3000)
    ctx.absorb(rep)
    # refinement: executions in which the CloseRead goroutine is the reader (a data message makes it close with 1008; Close and
    # the peer race it), and executions with a concurrent CloseNow, replayed through WSConn: CloseReturnedClean (timeoutLoop gone,
    # CloseRead goroutine done, nobody inside close()) is evaluated in every state on the way
    core.refine_validate(ctx, 150 if ctx.quick() else 1200, only=SIG_REFINE, kind="cr")
    if not ctx.quick():
        core.refine_validate(ctx, 1200, only=SIG_REFINE, kind="n")
    conc_campaign(ctx, 300 if ctx.quick() else 3000, SIG_C20)
    if not ctx.quick():
        repo_tests_traced(ctx, SIG_C20)


@check("C06")
def c06(ctx, replay):
    wsconn_model(ctx, ["quick", "async"] if ctx.quick() else ["quick", "async", "shutdown", "thorough"])
    rows = ctx.path("close.ndjson")
    rec, _ = ctx.tlc("WSCloseRows", "Rows.cfg", env={"OUT": rows}, workers=4, name="close-decision-table")
    rep = ctx.drive("closetab", ["-rows", rows, "-seed", ctx.seed])
    ctx.absorb(rep)
    ctx.extra["exhaustive"] = True
    # two close writers queued at the frame lock at once (the application's Close and the echo of the peer's Close, both behind a
    # data frame stalled in a full transport): each must put its own close on the wire (TraceSend), and the peer sees one of the two
    cross = ctx.path("closecross.ndjson")
    rep = ctx.drive("closecross", ["-n", 24 if ctx.quick() else 200, "-conn-trace", cross])
    ctx.absorb(rep)
    core.send_validate(ctx, cross, SIG_SEND_C06, name="TraceSend(crossing closes)")
    conc_campaign(ctx, 400 if ctx.quick() else 3000, SIG_C06)
    ctx.extra["rule"] = ("decision table written by TLC from WSBase!ValidWireCode: Close(code, reason) for every code -1..65536 and 2^31-1 with reason "
                         "lengths 0 and 123, reason lengths {0,1,122,123,124,125,130} on 20 boundary codes, peers that echo / answer another code / "
                         "stay silent; every 16-bit code as an incoming Close frame; both roles; plus seeded concurrent executions validating "
                         "'once closed everything fails' and the Close/CloseNow return values; distinct = distinct table rows")
    ctx.assumptions += ["Close returning nil without a matching echo is recorded, not judged: the statement fixes the result only when the peer echoes"]


@check("C17")
def c17(ctx, replay):
    import subprocess
    rec, _ = ctx.tlc("WSMask", "WSMask.cfg", name="maskGo-path-model+composition")
    ctx.count_model(rec)
    rows = ctx.path("mask.ndjson")
    ctx.tlc("WSMaskRows", "Rows.cfg", env={"OUT": rows}, workers=4, name="mask-table")
    args = ["-rows", rows, "-seed", ctx.seed]
    if not ctx.quick():
        args.append("-thorough")
    rep = ctx.drive("mask", args)
    ctx.absorb(rep)
    # page-boundary placement: an out-of-bounds read faults, which kills the child
    p = subprocess.run([ctx.driver(), "mask", "-pageguard"], stdout=subprocess.PIPE, stderr=subprocess.PIPE, text=True)
    ctx.evaluations += 1
    if p.returncode != 0:
        if "SIGSEGV" in p.stderr or "fault" in p.stderr or p.returncode < 0:
            ctx.violations.append(("mask-out-of-bounds-access", 1, {"sig": "mask-out-of-bounds-access", "detail": p.stderr[-800:], "case": {"cmd": "wsdrive mask -pageguard"}}))
        else:
            raise Infra("pageguard run failed: " + p.stderr[-500:])
    ctx.extra["exhaustive"] = True
    ctx.extra["rule"] = ("every length 0..4200 x every start alignment 0..63 x maskGo, mask() and the amd64 assembly, keys with four distinct bytes "
                         "(one rotation per cell in quick, all four in thorough), all 2-way splits for n<=300 (3-way for n<=64 in thorough, seeded above), "
                         "64 guard bytes either side, buffers ending/starting at an unmapped page; distinct = (length, alignment, implementation) cells")
    ctx.assumptions += ["the XOR and memory safety are observed through the harness projection (key-byte index per position, guard bytes, page faults); "
                        "TLC decides pattern, rotation, composability and the block decomposition of maskGo", "arm64 assembly cannot be executed in this sandbox"]


# ---------------------------------------------------------------------------------------------
# Handshake family (C11-C14): decision tables written by TLC from spec/WSHandshake.tla

def hs_rows(ctx, mode, out, big=False):
    rec, _ = ctx.tlc("WSHandshakeRows", "HandshakeRows.cfg", env={"MODE": mode, "OUT": out, "BIG": 1 if big else 0},
                     workers=8, name="handshake-%s%s" % (mode, "-big" if big else ""), timeout=1500)
    ctx.count_model(rec)
    return rec


@check("C11")
def c11(ctx, replay):
    rows = ctx.path("c11.ndjson")
    hs_rows(ctx, "c11", rows, big=not ctx.quick())
    ctx.absorb(ctx.drive("accept", ["-rows", rows, "-seed", ctx.seed]))
    pipelined(ctx)
    ctx.extra["exhaustive"] = True
    ctx.extra["rule"] = ("grammar of upgrade requests: method x HTTP version x Connection/Upgrade headers (absent, 1-2 lines of 1-2 tokens incl. case "
                         "variants and look-alikes) x version x 9 key variants x offered/supported subprotocol lists; requests are built in wire form and "
                         "parsed by net/http before reaching Accept; distinct = distinct TLC rows; plus pipelined client frames through a real net/http server")
    ctx.assumptions += ["SHA-1/base64 are computed independently by the harness (crypto/sha1); the spec treats them as uninterpreted",
                        "only the status class (>=400, not hijacked) is judged for invalid requests"]


def pipelined(ctx):
    rep = ctx.drive("pipelined", ["-seed", ctx.seed])
    ctx.absorb(rep)


@check("C12")
def c12(ctx, replay):
    rows = ctx.path("c12.ndjson")
    hs_rows(ctx, "c12", rows)
    ctx.absorb(ctx.drive("origin", ["-rows", rows, "-seed", ctx.seed]))
    ctx.extra["exhaustive"] = True
    ctx.extra["rule"] = ("origin grammar: 3 request hosts x (no Origin | url with scheme x userinfo trick x 7 host look-alikes x port x 5 tails | schemeless | "
                         "opaque | null) x 12 pattern sets x InsecureSkipVerify = 46512 rows; TLC also checks the recursive Glob against an independent "
                         "NFA-style matcher on all patterns <=3 x strings <=4 over a 5/3-letter alphabet (18876 states)")
    ctx.assumptions += ["origins naming no host and pattern lists with a malformed pattern are left open by the statement (recorded, not judged)"]


@check("C13")
def c13(ctx, replay):
    rows = ctx.path("c13.ndjson")
    hs_rows(ctx, "c13", rows, big=not ctx.quick())
    ctx.absorb(ctx.drive("dialresp", ["-rows", rows, "-seed", ctx.seed]))
    ctx.extra["exhaustive"] = True
    ctx.extra["rule"] = ("responses: status {101,200,400,500} x Connection x Upgrade variants x accept {correct, for another key, missing, case-changed} x "
                         "subprotocol x requested list x extension answers x client mode; request side: 90 DialOptions combinations (header override attempts, "
                         "Host override, subprotocols, modes) with key freshness over all dials; distinct = TLC rows")


@check("C14")
def c14(ctx, replay):
    srv, cli = ctx.path("c14srv.ndjson"), ctx.path("c14cli.ndjson")
    hs_rows(ctx, "c14srv", srv, big=not ctx.quick())
    hs_rows(ctx, "c14cli", cli)
    ctx.absorb(ctx.drive("nego", ["-rows", srv, "-rows2", cli, "-seed", ctx.seed], timeout=3000))
    ctx.extra["exhaustive"] = True
    ctx.extra["rule"] = ("all lists of <=2 (quick) / <=3 (thorough) offers over an 18-letter offer alphabet (RFC 7692 parameter grammar incl. malformed, "
                         "duplicated, unknown parameters and foreign extensions) x 3 server modes, sent on one header line and on several; all 14 response "
                         "shapes x 3 client modes; every successful handshake followed by a 4+4 message compressed exchange with a reference peer that applies "
                         "exactly the agreed context-takeover parameters; Agree is a TLC-checked theorem of the spec")
    ctx.assumptions += ["Go compress/flate is the reference DEFLATE codec", "client_no_context_takeover in a response is at the server's discretion unless the offer carried it"]


@check("C09")
def c09(ctx, replay):
    # (M) liveness with timers as separately enabled actions
    for n in ("strict-bounded", "strict-prompt"):
        rec, _ = ctx.tlc("WSClose", "WSClose.%s.cfg" % n, workers=4, name="WSClose-" + n)
        ctx.count_model(rec)
    caught = {}
    for n in ("dev-unarmed", "dev-selfwait"):
        rec, out = ctx.tlc("WSClose", "WSClose.%s.cfg" % n, workers=4, expect_ok=False, name="WSClose-" + n)
        caught[n] = "was violated" in out
        if not caught[n]:
            raise Infra("model regression: %s no longer violates its liveness property" % n)
    ctx.extra["model_catches_deviation"] = caught
    rec, _ = ctx.tlc("WSConn", "WSConn.live.cfg", name="WSConn-liveness(Close terminates, all calls return; only the 5 s timers)", timeout=2400)
    ctx.count_model(rec)
    # Close, CloseNow and the CloseRead goroutine racing (casClosing, closeMu, forceLocks, waitGoroutines) in the endpoint model:
    # with the 5 s timers every call returns; with NO timer CloseNow returns and a closed connection unblocks every call
    runs = [("shut-prompt", "Close+CloseNow+CloseRead: CloseNow returns and closed unblocks all calls with no timer at all"),
            ("pong-prompt", "Ping stalled in its frame write, pongs arriving early and twice, peer not reading: CloseNow returns and closed unblocks all calls with no timer")]
    # the peer stops reading while a Ping (Background context) is stalled in its frame write: Close's own frame, and the pong the
    # reader owes, are written under 5 s contexts that also bound the wait for the frame lock -- with them every call returns
    runs.append(("stall-bounded", "peer not reading, Ping stalled in its write: Close terminates and all calls return with the 5 s control-write timer"))
    if not ctx.quick():
        runs.append(("shut-bounded", "Close+CloseNow+CloseRead: all return with the 5 s timers only (no 15 s backstop)"))
    for n, what in runs:
        rec, _ = ctx.tlc("WSConn", "WSConn.%s.cfg" % n, name="WSConn-" + what, timeout=2400)
        ctx.count_model(rec)
    for n in (("CloseNowWaits", "BlockingPong") if ctx.quick() else ("CloseNowWaits", "BlockingPong", "BlockingCloseMu")):
        rec, out = ctx.tlc("WSConn", "WSConn.dev-%s.cfg" % n, expect_ok=False, name="WSConn-dev-" + n, timeout=2400)
        caught["WSConn-" + n] = ("was violated" in out or "were violated" in out)
        if not caught["WSConn-" + n]:
            raise Infra("model regression: %s no longer violates its liveness property" % n)
    # "is this timer needed?": without the control-write timer the same configuration must NOT terminate
    rec, out = ctx.tlc("WSConn", "WSConn.stall-nowritetimer.cfg", expect_ok=False, name="WSConn-stall-without-the-control-write-timer", timeout=2400)
    caught["WSConn-stall-nowritetimer"] = ("was violated" in out or "were violated" in out)
    if not caught["WSConn-stall-nowritetimer"]:
        raise Infra("model regression: without the 5 s control-write timer the stalled configuration still terminates")
    # (B) adversary scripts x local states against the real code with real timers
    rows = ctx.path("cb.ndjson")
    ctx.tlc("WSCloseBoundRows", "CloseBoundRows.cfg", env={"OUT": rows}, workers=2, name="close-bound-table")
    rep = ctx.drive("closebound", ["-rows", rows, "-seed", ctx.seed] + (["-stride", "2"] if ctx.quick() else []), timeout=600)
    ctx.absorb(rep)
    # concurrent executions (writers, pingers, reader, closers; peers that flood, withhold, duplicate and guess pongs, zero-window
    # transports): every actor must return once the connection is closed and Close/CloseNow must return in time
    # refinement: executions with a CloseNow racing Close, Read, Ping and a streaming Writer replayed through WSConn (Extra "N")
    core.refine_validate(ctx, 150 if ctx.quick() else 1500, only=SIG_REFINE, kind="n")
    conc_campaign(ctx, 200 if ctx.quick() else 1500, SIG_C09)
    ctx.extra["rule"] = ("adversaries {echo, late echo, silent, never reads, stall after k header bytes (k in 1,2,3,5,9,10,13), stall after j payload bytes "
                         "(j in 0,1,50,99), endless small frames, one endless frame, half-close} x local states {idle, reader blocked, message half read, "
                         "CloseRead active, CloseRead closing on a data message, writer blocked} x {Close, CloseNow} x role, run with real timers; "
                         "bound = 3 s slack + 5 s per timer the specification allows on that path; distinct = table rows")
    ctx.assumptions += ["seconds are measured on the real code with 3 s slack; TLC decides which timers a path may need (liveness with the other timers' actions removed)"]


@check("C10")
def c10(ctx, replay):
    import subprocess, shutil
    # (M) TLC on the bounded abstraction, mutant must be caught
    rec, _ = ctx.tlc("WSTimeout", "WSTimeout.cfg", name="timeoutLoop-abstraction")
    ctx.count_model(rec)
    rec, out = ctx.tlc("WSTimeout", "WSTimeout.mutant.cfg", expect_ok=False, name="timeoutLoop-abstraction-without-rearm")
    if "is violated" not in out:
        raise Infra("model regression: the missing-re-arm mutant is no longer caught")
    # the same discipline inside the concurrent endpoint model: a streaming writer and a pinger whose contexts the
    # application may cancel at any moment, timeoutLoop firing on the armed context (Harmless, ArmedOnlyInFrame)
    rec, _ = ctx.tlc("WSConn", "WSConn.ctx.cfg", name="WSConn-with-cancellable-contexts")
    ctx.count_model(rec)
    rec, out = ctx.tlc("WSConn", "WSConn.dev-NoRearm.cfg", expect_ok=False, name="WSConn-dev-NoRearm")
    if "is violated" not in out:
        raise Infra("model regression: WSConn no longer catches the missing hand-back of the write context")
    # inductive invariant by Apalache (programs of unbounded length); infrastructure trouble is not a verdict
    apa = {}
    adir = ctx.path("apa")
    os.makedirs(adir, exist_ok=True)
    shutil.copy(os.path.join(ctx.specdir, "WSTimeout.tla"), adir)
    for name, args, want in (("init", ["--cinit=ConstInit", "--init=Init", "--inv=IndInv", "--length=0"], "NoError"),
                             ("step", ["--cinit=ConstInit", "--init=IndInit", "--inv=IndInv", "--length=1"], "NoError"),
                             ("step-without-rearm", ["--cinit=ConstInitMutant", "--init=IndInit", "--inv=IndInv", "--length=1"], "Error")):
        p = subprocess.run(["timeout", "300", "apalache-mc", "check"] + args + ["WSTimeout.tla"], cwd=adir, stdout=subprocess.PIPE, stderr=subprocess.STDOUT, text=True)
        got = "NoError" if "The outcome is: NoError" in p.stdout else ("Error" if "The outcome is: Error" in p.stdout else "unknown")
        apa[name] = got
        if got != want:
            raise Infra("Apalache %s: outcome %s, expected %s" % (name, got, want))
    ctx.extra["apalache_inductive_invariant"] = apa
    # (B) programs with cancellations after success / while blocked, (C) their hook traces
    rows, conn = ctx.path("ctx.ndjson"), ctx.path("ctxconn.ndjson")
    ctx.tlc("WSTimeoutRows", "Rows.cfg", env={"OUT": rows, "N": 1 if ctx.quick() else 2}, workers=2, name="context-programs")
    rep = ctx.drive("ctxprog", ["-rows", rows, "-seed", ctx.seed, "-conn-trace", conn], timeout=1200)
    ctx.absorb(rep)
    rej, _ = trace_validate(ctx, "TraceConn", "TraceConn.cfg", conn, name="TraceConn(ctxprog)")
    absorb_rejections(ctx, rej, "TraceConn", conn, only=SIG_C10)
    # refinement: executions in which the application cancels the Writer's and the Ping's context at seeded moments (inside a
    # frame write on a narrow transport, in a lock wait, while waiting for the pong, long after the call) replayed through the
    # actions of WSConn with CtxProcs = {A, P}; Harmless and ArmedOnlyInFrame are evaluated in every state on the way
    core.refine_validate(ctx, 200 if ctx.quick() else 1500, only=SIG_REFINE, kind="ctx")
    conc_campaign(ctx, 150 if ctx.quick() else 2000, SIG_C10)
    if not ctx.quick():
        repo_tests_traced(ctx, SIG_C10)
    ctx.extra["rule"] = ("all programs of up to N successful calls from {Read of a fragmented message with an interleaved ping, Write, Writer with two chunks, "
                         "Ping} each under its own context cancelled right after success, optionally ended by a call whose context is cancelled while it is "
                         "blocked on the transport, inside a message, on the message lock or on a pong; x role x compression; afterwards a full round trip "
                         "must succeed or the connection must be closed; hook traces validated against the hand-off protocol of TraceConn.tla")
    ctx.assumptions += ["'promptly' = 2 s measured", "Apalache 0.58 discharges the inductive invariant of the abstraction; its binding to the code is the TraceConn hand-off rules"]


SIG_C07_TRACE = {"pooled-object-handed-out-while-owned-by-another-connection", "pooled-object-put-by-a-connection-that-does-not-own-it",
                 "pooled-object-put-while-a-call-into-it-is-in-progress", "use-of-pooled-object-not-owned-by-this-connection"}


@check("C07")
def c07(ctx, replay):
    rec, _ = ctx.tlc("WSPool", "WSPool.cfg", name="pool-ownership-model")
    ctx.count_model(rec)
    caught = {}
    for cfg, dev in (("WSPool.dev.cfg", "ReadAgainUsesRef"), ("WSPool.dev2.cfg", "PutWithoutClear"), ("WSPool.dev-alias.cfg", "ResultAliasesPool")):
        rec, out = ctx.tlc("WSPool", cfg, expect_ok=False, name="pool-ownership-model-with-deviation-" + dev)
        caught[dev] = "is violated" in out
        if not caught[dev]:
            raise Infra("model regression: %s is no longer caught" % dev)
    ctx.extra["model_catches_deviation"] = caught
    trace = ctx.path("pool.ndjson")
    rep = ctx.drive("pool", ["-n", 300 if ctx.quick() else 4000, "-seed", ctx.seed, "-pool-trace", trace], timeout=2400)
    ctx.absorb(rep)
    rej, _ = trace_validate(ctx, "TracePool", "TracePool.cfg", trace, name="TracePool")
    absorb_rejections(ctx, rej, "TracePool", trace, only=SIG_C07_TRACE)
    # the wsjson byte-buffer pool is shared by all connections too: values up to >1 MiB read on concurrent connections,
    # every read followed by another read on the same goroutine, results compared with encoding/json on the same bytes
    jrows, jtrace = ctx.path("json0.ndjson"), ctx.path("jpool.ndjson")
    ctx.tlc("WSJsonRows", "Rows.cfg", env={"OUT": jrows, "DEPTH": 0 if ctx.quick() else 1}, workers=4, name="json-shapes(pool)")
    rep = ctx.drive("wsjson", ["-rows", jrows, "-seed", ctx.seed, "-pool-trace", jtrace], timeout=2400)
    ctx.absorb(rep)
    rej, _ = trace_validate(ctx, "TracePool", "TracePool.cfg", jtrace, name="TracePool(bpool)")
    absorb_rejections(ctx, rej, "TracePool", jtrace, only=SIG_C07_TRACE)
    # a transport that holds on to pending I/O for seconds after Close: teardown must neither force its locks nor hand buffers,
    # flate objects and windows back to the pools while a read or write of the closed connection is still inside them
    sconn, spool = ctx.path("stuckconn.ndjson"), ctx.path("stuckpool.ndjson")
    rep = ctx.drive("stuck", ["-conn-trace", sconn, "-pool-trace", spool], timeout=600)
    ctx.absorb(rep)
    rej, _ = trace_validate(ctx, "TraceConn", "TraceConn.cfg", sconn, name="TraceConn(stuck transport)")
    absorb_rejections(ctx, rej, "TraceConn", sconn, only={"forcelock-acquired-while-held", "read-step-without-read-lock", "lock-acquired-while-held", "pooled-object-released-without-its-lock"})
    rej, _ = trace_validate(ctx, "TracePool", "TracePool.cfg", spool, name="TracePool(stuck transport)")
    absorb_rejections(ctx, rej, "TracePool", spool, only=SIG_C07_TRACE)
    # the concurrent campaign: every pooled object is handed back by the goroutine that holds the lock guarding it (TraceConn)
    conn = ctx.path("connlocks.ndjson")
    ctx.drive("conc", ["-n", 150 if ctx.quick() else 1500, "-seed", ctx.seed, "-conn-trace", conn], timeout=2400)
    rej, _ = trace_validate(ctx, "TraceConn", "TraceConn.cfg", conn, name="TraceConn(conc, pooled objects)")
    absorb_rejections(ctx, rej, "TraceConn", conn, only={"pooled-object-released-without-its-lock"})
    if not ctx.quick():
        repo_tests_traced(ctx, set(), only_pool=SIG_C07_TRACE)
        # pool events of the concurrent campaign (many connections in flight at once), under the same ownership rules
        conn = ctx.path("conn.ndjson")
        ctx.drive("conc", ["-n", 600, "-seed", ctx.seed, "-conn-trace", conn, "-global-order"], timeout=2400)
        rej, _ = trace_validate(ctx, "TracePool", "TracePool.cfg", conn, name="TracePool(conc)")
        absorb_rejections(ctx, rej, "TracePool", conn, only=SIG_C07_TRACE)
    ctx.extra["rule"] = ("seeded programs over 2-3 concurrently open connections (both roles, four takeover modes) sharing the pools: start a compressed "
                         "fragmented message, read part, read to the end, READ AGAIN after the end, second Reader while open, ping mid-message, peer Close "
                         "frame mid-message, CloseNow, context expiry mid-message, new connections reusing the pools; every fourth program starts with the "
                         "scripted hand-over (A ends, B starts, A reads again); payloads are connection-tagged and every returned byte is attributed; "
                         "all pool events validated by TracePool.tla in one global order; distinct = distinct operation sequences")
    ctx.assumptions += ["programs run in one goroutine so that sync.Pool hands objects over deterministically; pool reuse only affects reach, not verdicts"]


SIG_C01 = None  # everything the roundtrip family reports except pure wire-grammar signatures belongs to C01
WIRE_ONLY = {"wire-not-decodable-by-independent-peer", "wire-message-count", "wire-message-differs-from-written"}


def pair_models(ctx):
    for c in ("ct", "nct", "off"):
        rec, _ = ctx.tlc("WSPair", "WSPair.%s.cfg" % c, name="WSPair-" + c)
        ctx.count_model(rec)
    caught = {}
    for c in ("dev-wrongside", "dev-dict"):
        rec, out = ctx.tlc("WSPair", "WSPair.%s.cfg" % c, expect_ok=False, name="WSPair-" + c)
        caught[c] = "is violated" in out
        if not caught[c]:
            raise Infra("model regression: %s is no longer caught" % c)
    ctx.extra["model_catches_deviation"] = caught


def unit_models(ctx):
    trim = ctx.path("trim.ndjson")
    rec, _ = ctx.tlc("WSTrim", "WSTrim.cfg", env={"OUT": trim}, name="trimLastFourBytesWriter")
    ctx.count_model(rec)
    wins = []
    for cap in (1, 4, 8):
        w = ctx.path("win%d.ndjson" % cap)
        rec, _ = ctx.tlc("WSWindow", "WSWindow.%d.cfg" % cap, env={"OUT": w}, name="slidingWindow-cap%d" % cap)
        ctx.count_model(rec)
        wins.append(w)
    return trim, wins


def roundtrip(ctx, kinds, stride, with_units, only=None, ignore=()):
    rows, wire = ctx.path("pair.ndjson"), ctx.path("rtwire.ndjson")
    ctx.tlc("WSPairRows", "Rows.cfg", env={"OUT": rows, "BIG": 0 if ctx.quick() else 1}, workers=4, name="roundtrip-programs")
    ctrace = ctx.path("rtconn.ndjson")
    args = ["-rows", rows, "-seed", ctx.seed, "-stride", stride, "-kinds", kinds, "-wire-trace", wire, "-conn-trace", ctrace, "-trace-every", 6 if ctx.quick() else 10]
    if not ctx.quick():
        args += ["-huge-every", 9]
    if with_units:
        trim, wins = unit_models(ctx)
        args += ["-trim-rows", trim]
        for w in wins:
            args += ["-window-rows", w]
    rep = ctx.drive("roundtrip", args, timeout=7200)
    ctx.absorb(rep, only=only, ignore=ignore)
    # (C) hook events of every 6th connection of these programs: the sender pipeline (TraceSend) and the receiver's account (TraceRecv)
    tsig = (SIG_SEND_ALL | SIG_RECV_C04 | SIG_RECV_FRAMING) if only is None else (set(only) | SIG_SEND_C02)
    core.send_validate(ctx, ctrace, tsig, name="TraceSend(roundtrip)")
    core.recv_validate(ctx, ctrace, tsig, name="TraceRecv(roundtrip)")
    return wire


@check("C01")
def c01(ctx, replay):
    pair_models(ctx)
    roundtrip(ctx, "pair", 3 if ctx.quick() else 1, True)
    ctx.extra["rule"] = ("TLC-enumerated programs of 1-3 messages (type x Write/Writer x chunkings in size classes {0, below, at, above the threshold, >32 KiB window, "
                         "framing boundary 125/126/4095-4097/65535-65537, >1 MiB in thorough} x content {incompressible, repeating the previous message, zeros}) x 3x3 "
                         "client/server compression modes x thresholds {default, 1, huge}, run on a real client/server pair through the real handshake in both "
                         "directions; every delivery compared byte for byte and by type and order, caller buffers compared with private copies; plus every "
                         "behaviour of the trim writer (<=4 writes of 0..9 bytes) and sliding window (cap 1,4,8) replayed into the real objects; distinct = TLC rows")
    ctx.assumptions += ["DEFLATE itself is Go's compress/flate on both sides (opaque to the specification)"]


@check("C02")
def c02(ctx, replay):
    rec, _ = ctx.tlc("WSFrameMC", "WSFrameMC.cfg", name="header-codec-roundtrip")
    ctx.count_model(rec)
    wsconn_model(ctx, ["quick"])
    wire = roundtrip(ctx, "pair,rawclient,rawserver", 4 if ctx.quick() else 1, False, only=WIRE_ONLY | {"handshake", "roundtrip-write-failed"})
    rej, _ = trace_validate(ctx, "TraceWire", "TraceWire.cfg", wire, name="TraceWire(roundtrip taps)")
    absorb_rejections(ctx, rej, "TraceWire", wire, only=SIG_C02)
    conc_campaign(ctx, 200 if ctx.quick() else 3000, SIG_C02)
    ctx.extra["rule"] = ("the bytes each endpoint writes (tapped on the transport) for TLC-enumerated programs of Write/Writer calls, both roles, all agreements incl. the "
                         "asymmetric client_no_context_takeover / server_no_context_takeover ones obtained from foreign offers and answers, thresholds {default,1,huge}: "
                         "an independent decoder reassembles and inflates with the agreed parameters and must obtain exactly the written messages; TLC decodes every raw "
                         "header (WSFrame!DecodeHeader) and runs the sender grammar WSFrame!WireStep and the mask-key rule over the frame sequence; plus concurrent "
                         "executions with Ping and Close traffic; distinct = TLC program rows")
    ctx.assumptions += ["independent decoder = harness frame parser + compress/flate with explicit takeover; its header parsing is re-done by TLC on the raw bytes",
                        "frame traces longer than 400 frames are decoded by the harness but not sent to TLC"]


@check("C18")
def c18(ctx, replay):
    rec, _ = ctx.tlc("WSNetConn", "WSNetConn.cfg", name="netconn-adapter-model")
    ctx.count_model(rec)
    # how a deadline expires: the callback goroutine against SetDeadline and against a call that starts after the deadline has
    # passed (strict design + the three pre-fix behaviours)
    rec, _ = ctx.tlc("WSDeadline", "WSDeadline.cfg", workers=2, name="deadline-expiry-vs-reset")
    ctx.count_model(rec)
    caught = {}
    for d in ("stale", "nomutex", "noentrycheck"):
        rec, out = ctx.tlc("WSDeadline", "WSDeadline.dev-%s.cfg" % d, workers=2, expect_ok=False, name="deadline-expiry-dev-" + d)
        caught[d] = "is violated" in out
        if not caught[d]:
            raise Infra("model regression: WSDeadline deviation %s is no longer caught" % d)
    ctx.extra["model_catches_deviation"] = caught
    # the same specification bound to the code the other way round: concurrent executions of a real adapter (reader, writer, a
    # goroutine setting deadlines, the runtime's timer callbacks) replayed through WSDeadline's own actions
    deadline_validate(ctx, 300 if ctx.quick() else 4000)
    rows = ctx.path("nc.ndjson")
    ctx.tlc("WSNetConnRows", "WSNetConn.cfg", env={"OUT": rows, "N": 3 if ctx.quick() else 4}, workers=4, name="netconn-behaviours", timeout=1800)
    args = ["-rows", rows, "-seed", ctx.seed]
    args += ["-units", "1,4096"] if ctx.quick() else ["-units", "1,4096,65537"]
    rep = ctx.drive("netconn", args, timeout=3600)
    ctx.absorb(rep)
    # the adapter as a byte stream over every inbound stream the receive specification generates (fragments, empty fragments,
    # interleaved control frames, compressed messages incl. ones the peer ends with a BFINAL block), whole and cut at every offset:
    # the bytes handed over are the complete messages in order (+ a prefix of the cut one), nothing dropped, never a clean EOF
    decoder_model(ctx, 3)
    lp = letters(ctx)
    n = 3 if ctx.quick() else 4
    off, on = ctx.path("c04off.ndjson"), ctx.path("c04on.ndjson")
    recv_rows(ctx, "c04", n, False, off)
    recv_rows(ctx, "c04", n, True, on)
    cargs = ["-letters", lp, "-rows-off", off, "-rows-on", on, "-seed", ctx.seed, "-apis", "netconn", "-scales", "0"]
    cargs += ["-bufs", "1,512", "-modes-on", "ct"] if ctx.quick() else ["-bufs", "1,7,512,4096", "-modes-on", "ct,nct", "-stride", "2"]
    rep = ctx.drive("cut", cargs, timeout=3600)
    ctx.absorb(rep)
    ctx.extra["exhaustive"] = True
    ctx.extra["rule"] = ("every enabled behaviour of at most N operations of spec/WSNetConn.tla over {peer sends 0/1/3 units of the right type or a wrong-type message, "
                         "Read with 1/2/9-unit buffers, Write of 0/2 units, peer Close 1000/1001/4000, Set{Read,Write}Deadline past/zero/future, Read or Write "
                         "blocked with a 30 ms deadline} replayed on a real adapter (both roles, text and binary, unit = 1 B / 4 KiB / 64 KiB+1); which branch a timer "
                         "took comes from the NcTimerIdle/NcTimerActive hooks; distinct = behaviours")
    ctx.assumptions += ["timer branch is read from the hooks, not inferred from timing; behaviours where scheduling let the timer win are counted as not reproduced"]


@check("C19")
def c19(ctx, replay):
    rec, _ = ctx.tlc("WSJson", "WSJson.cfg", name="wsjson-model")
    ctx.count_model(rec)
    rec, out = ctx.tlc("WSJson", "WSJson.dev.cfg", expect_ok=False, name="wsjson-model-with-aliasing-deviation")
    if "is violated" not in out:
        raise Infra("model regression: ResultAliasesBuffer is no longer caught")
    rec, out = ctx.tlc("WSJson", "WSJson.dev-residue.cfg", expect_ok=False, name="wsjson-model-with-failed-write-residue")
    if "OneValuePerMessage is violated" not in out:
        raise Infra("model regression: WriterKeepsFailedValue is no longer caught")
    rows, trace = ctx.path("json.ndjson"), ctx.path("jpool.ndjson")
    ctx.tlc("WSJsonRows", "Rows.cfg", env={"OUT": rows, "DEPTH": 1 if ctx.quick() else 2}, workers=4, name="json-shapes")
    rep = ctx.drive("wsjson", ["-rows", rows, "-seed", ctx.seed, "-pool-trace", trace] + ([] if ctx.quick() else ["-stride", "2"]), timeout=3600)
    ctx.absorb(rep)
    rej, _ = trace_validate(ctx, "TracePool", "TracePool.cfg", trace, name="TracePool(bpool)")
    absorb_rejections(ctx, rej, "TracePool", trace, only=SIG_C07_TRACE)
    ctx.extra["rule"] = ("JSON shapes of depth <=1 (quick) / <=2 (thorough) over {null, bool, number, large number, string, unicode+escapes, 40 KB string, arrays, "
                         "objects} x targets {interface{}, RawMessage, []byte, int, string, struct, map} x faults {none, truncated, garbage prefix, two values, "
                         "empty message, binary frame}; Write is checked on the wire (exactly one text message, JSON-equivalent), Read against encoding/json on the "
                         "same bytes and target (value, or error + Close 1007 + closed), exactly-one-message by a follow-up read, aliasing by re-inspecting the last 64 "
                         "results after every later read on any of 16 concurrent connections; bpool Get/Put events validated by TracePool.tla; distinct = rows")
    ctx.assumptions += ["JSON encode/decode fidelity is encoding/json's (the reference), not specified in TLA+"]
