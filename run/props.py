"""Per-property check procedures (DESIGN.md section 6)."""
import json, os
from core import check, Infra


def recv_rows(ctx, mode, n, flate, out):
    rec, txt = ctx.tlc("WSRecvRows", "WSRecvRows.cfg", env={"MODE": mode, "N": n, "FLATE": 1 if flate else 0, "OUT": out},
                       workers=4, name="rows-%s-N%d-flate%d" % (mode, n, flate))
    return rec


def letters(ctx):
    p = ctx.path("letters.ndjson")
    if not os.path.exists(p):
        recv_rows(ctx, "letters", 0, True, p)
    return p


@check("C03")
def c03(ctx, replay):
    # (M) the reference decoder as a state machine: every stream of <= MaxFrames letters
    mf = 3 if ctx.quick() else 4
    cfg = ctx.path("c03mc.cfg")
    open(cfg, "w").write(open(os.path.join(ctx.specdir, "cfg", "WSRecv.mc.cfg")).read().replace("MaxFrames = 3", "MaxFrames = %d" % mf))
    for fl in ("TRUE", "FALSE"):
        c2 = ctx.path("c03mc_%s.cfg" % fl)
        open(c2, "w").write(open(cfg).read().replace("Flate = TRUE", "Flate = %s" % fl))
        rec, _ = ctx.tlc("WSRecv", c2, name="decoder-automaton-flate-%s" % fl)
        ctx.count_model(rec)
    # (B) every stream of <= N letters, both roles, replayed into the real Conn
    n = 3 if ctx.quick() else 4
    lp = letters(ctx)
    off, on = ctx.path("c03off.ndjson"), ctx.path("c03on.ndjson")
    recv_rows(ctx, "c03", n, False, off)
    recv_rows(ctx, "c03", n, True, on)
    chunks = "whole,one" if ctx.quick() else "whole,one,rand"
    modes = "ct,nct" if ctx.quick() else "ct,nct,c_nct,s_nct"
    rep = ctx.drive("recv", ["-letters", lp, "-rows-off", off, "-rows-on", on, "-seed", ctx.seed, "-chunks", chunks, "-modes-on", modes])
    ctx.absorb(rep)
    ctx.extra["exhaustive"] = True
    ctx.extra["rule"] = ("every frame stream of at most %d letters over the 43-letter alphabet of spec/WSRecv.tla "
                         "(valid frames and single-violation frames) that stops at its first terminal letter, "
                         "x role x compression mode x transport chunking; distinct = distinct letter sequences" % n)
    ctx.assumptions += ["TLC and the CommunityModules Json writer", "Go compress/flate as reference DEFLATE codec",
                        "harness frame encoder (ws/rawpeer.go) written from RFC 6455 5.2"]


def decoder_model(ctx, mf):
    """(M) the reference decoder automaton, both with and without permessage-deflate."""
    base = open(os.path.join(ctx.specdir, "cfg", "WSRecv.mc.cfg")).read().replace("MaxFrames = 3", "MaxFrames = %d" % mf)
    for fl in ("TRUE", "FALSE"):
        c2 = ctx.path("recvmc_%s.cfg" % fl)
        open(c2, "w").write(base.replace("Flate = TRUE", "Flate = %s" % fl))
        rec, _ = ctx.tlc("WSRecv", c2, name="decoder-automaton-flate-%s" % fl)
        ctx.count_model(rec)


@check("C04")
def c04(ctx, replay):
    decoder_model(ctx, 3)
    n = 3 if ctx.quick() else 4
    lp = letters(ctx)
    off, on = ctx.path("c04off.ndjson"), ctx.path("c04on.ndjson")
    recv_rows(ctx, "c04", n, False, off)
    recv_rows(ctx, "c04", n, True, on)
    args = ["-letters", lp, "-rows-off", off, "-rows-on", on, "-seed", ctx.seed]
    if ctx.quick():
        args += ["-bufs", "1,512", "-modes-on", "ct", "-chunks", "whole"]
    else:
        args += ["-bufs", "1,2,7,512,4096,32768", "-modes-on", "ct,nct", "-chunks", "whole,rand", "-stride", "3"]
    rep = ctx.drive("cut", args, timeout=7200)
    ctx.absorb(rep)
    ctx.extra["exhaustive"] = True
    ctx.extra["rule"] = ("every valid stream of at most %d frames (fragmented, empty fragments, interleaved ping/pong, compressed) "
                         "cut at EVERY byte offset 0..len, ended by EOF and by a transport error, x role x read-buffer size x "
                         "Conn.Reader/Conn.Read; distinct = (stream, frames complete, cut class) triples" % n)
    ctx.assumptions += ["TLC", "Go compress/flate as reference codec", "harness frame encoder written from RFC 6455 5.2"]


@check("C08")
def c08(ctx, replay):
    decoder_model(ctx, 3)
    rows, arows = ctx.path("c08.ndjson"), ctx.path("c08alloc.ndjson")
    recv_rows(ctx, "c08", 0, True, rows)
    recv_rows(ctx, "c08alloc", 0, True, arows)
    args = ["-rows", rows, "-alloc-rows", arows, "-seed", ctx.seed]
    if ctx.quick():
        pass
    rep = ctx.drive("limit", args)
    ctx.absorb(rep)
    ctx.extra["exhaustive"] = not ctx.quick()
    ctx.extra["rule"] = ("limits {-1,0,1,125,4096,32768(default, with and without SetReadLimit),65536} x sizes {L-1,L,L+1,2L+3,40L,7} x 6 "
                         "fragmentations x compressed/plain, two-message programs changing the limit in between, declared lengths "
                         "2^31/2^40/2^63-1 and 1 MiB/8 MiB zero bombs (allocation measured sequentially); x role x read buffer {7,4096,70000}; "
                         "distinct = distinct TLC rows")
    ctx.assumptions += ["heap use is a measured TotalAlloc delta with 512 KiB fixed slack, not a modelled quantity"]
