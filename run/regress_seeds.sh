#!/bin/sh
# usage: run/regress_seeds.sh [parallel] [pattern]   every live seeded change against the quick tier of its own property, in scratch
# worktrees (shadow mode: /repo and /verif/evidence are not touched).  Prints one line per seed; "MISSED" lines are what to look at.
cd /verif
par=${1:-3}; pat=${2:-.}
ls -d seeded/C*_* | grep -E "$pat" | while read d; do
  n=$(basename $d)
  python3 - "$d" <<'PY' || continue
import json,sys
m=json.load(open(sys.argv[1]+'/meta.json'))
sys.exit(1 if m.get('neutralised_by_fix') else 0)
PY
  echo $n
done | xargs -P $par -I{} sh -c 'p=$(echo {} | cut -d_ -f1); out=$(python3 run/seedtool.py shadow seeded/{}/patch.diff $p quick 2>&1 | tail -1 | cut -c1-260); case "$out" in *"exit 1"*) echo "DETECTED $out";; *) echo "MISSED   {} $out";; esac'
