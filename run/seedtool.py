#!/usr/bin/env python3
"""Confirms a seeded change (patch + demonstration) in a scratch worktree and files it under /verif/seeded/<name>/.

  seedtool.py confirm <name> <property> <patch.diff> <demo_test.go> [notes.md]
  seedtool.py detect  <name> [tier]      # applies the patch to /repo, runs bin/check for its property, reverts

The scratch worktree lives under /var/tmp and is removed afterwards."""
import json, os, shutil, subprocess, sys, time
HOME = "/verif"
ENV = dict(os.environ, GOFLAGS="-mod=mod", GOPROXY="off", GOSUMDB="off", GOTOOLCHAIN="local")


def sh(cmd, cwd=None, timeout=900):
    p = subprocess.run(cmd, shell=True, cwd=cwd, env=ENV, stdout=subprocess.PIPE, stderr=subprocess.STDOUT, text=True, timeout=timeout)
    return p.returncode, p.stdout


def confirm(name, prop, patch, demo, notes=None):
    wt = "/var/tmp/verif-scratch/seedwt_%s" % name
    sh("git -C /repo worktree remove --force %s" % wt)
    rc, out = sh("git -C /repo worktree add -q --detach %s HEAD" % wt)
    assert rc == 0, out
    res = {"property": prop, "name": name, "repo_head": sh("git -C /repo rev-parse --short HEAD")[1].strip()}
    try:
        demo_name = os.path.basename(demo)
        shutil.copy(demo, os.path.join(wt, demo_name))
        rc, out = sh("timeout 600 go test -vet=off -count=1 -timeout 500s . 2>&1 | tail -15", cwd=wt)
        res["demo_on_unchanged_tree"] = "pass" if "\nok " in "\n" + out or out.startswith("ok") else "FAIL"
        res["demo_on_unchanged_tree_tail"] = out[-600:]
        rc, out = sh("git apply %s" % patch, cwd=wt)
        res["patch_applies"] = rc == 0
        if rc != 0:
            res["apply_error"] = out[-500:]
            return res
        rc, out = sh("go build ./... && go build -tags verif ./...", cwd=wt)
        res["compiles"] = rc == 0
        os.rename(os.path.join(wt, demo_name), "/var/tmp/verif-scratch/%s.aside" % demo_name)
        rc, out = sh("timeout 900 go test -vet=off -count=1 -timeout 800s ./... 2>&1 | tail -6", cwd=wt)
        res["existing_suite_with_change"] = "pass" if "FAIL" not in out and "ok " in out else "FAIL"
        res["existing_suite_tail"] = out[-400:]
        os.rename("/var/tmp/verif-scratch/%s.aside" % demo_name, os.path.join(wt, demo_name))
        rc, out = sh("timeout 900 go test -vet=off -count=1 -timeout 800s . 2>&1 | grep -v '^=== \\|^    --- PASS\\|^--- PASS' | tail -25", cwd=wt)
        res["demo_with_change"] = "FAIL" if "FAIL" in out else "pass"
        res["demo_with_change_tail"] = out[-1200:]
    finally:
        sh("git -C /repo worktree remove --force %s" % wt)
    ok = (res.get("demo_on_unchanged_tree") == "pass" and res.get("compiles") and res.get("existing_suite_with_change") == "pass"
          and res.get("demo_with_change") == "FAIL")
    res["confirmed"] = bool(ok)
    if ok:
        d = os.path.join(HOME, "seeded", name)
        os.makedirs(d, exist_ok=True)
        shutil.copy(patch, os.path.join(d, "patch.diff"))
        shutil.copy(demo, os.path.join(d, demo_name))
        if notes and os.path.exists(notes):
            shutil.copy(notes, os.path.join(d, "notes.md"))
        meta = {"property": prop, "breaks": prop, "confirmed_at_repo_head": res["repo_head"],
                "what_it_needs_to_manifest": "see notes.md",
                "what_i_ran": ["go test -vet=off -count=1 . (demo on unchanged tree: pass)", "git apply patch.diff; go build ./... (ok)",
                               "go test -vet=off -count=1 ./... without the demo (existing suite: pass)", "go test -vet=off -count=1 . with the demo (FAIL)"],
                "results": {k: res[k] for k in ("demo_on_unchanged_tree", "existing_suite_with_change", "demo_with_change")}}
        json.dump(meta, open(os.path.join(d, "meta.json"), "w"), indent=1)
    return res


def detect(name, tier="quick"):
    d = os.path.join(HOME, "seeded", name)
    meta = json.load(open(os.path.join(d, "meta.json")))
    rc, out = sh("git -C /repo status --porcelain")
    assert out.strip() == "", "/repo not clean: " + out
    rc, out = sh("git -C /repo apply %s" % os.path.join(d, "patch.diff"))
    assert rc == 0, out
    t = time.time()
    try:
        rc, out = sh("timeout 3000 bin/check %s %s" % (meta["property"], tier), cwd=HOME, timeout=3100)
    finally:
        sh("git -C /repo checkout -- .")
    viol = [l for l in out.splitlines() if l.startswith("VIOLATION") or l.strip().startswith("signature=")]
    meta.setdefault("detection", {})[tier] = {"exit": rc, "wall_s": round(time.time() - t, 1), "lines": viol[:6]}
    json.dump(meta, open(os.path.join(d, "meta.json"), "w"), indent=1)
    return rc, viol


def shadow(patch, props, tier="quick", keep=False):
    """Run checks against a scratch worktree of /repo with <patch> applied; /repo and /verif/evidence stay untouched."""
    name = os.path.basename(os.path.dirname(os.path.abspath(patch))) if os.path.basename(patch) == "patch.diff" else os.path.basename(patch)
    wt = "/var/tmp/verif-scratch/shadow_%s_%d" % (name, os.getpid())
    os.makedirs("/var/tmp/verif-scratch", exist_ok=True)
    rc, out = sh("git -C /repo worktree add -q --detach %s HEAD" % wt)
    assert rc == 0, out
    results = {}
    try:
        if patch != "-":
            rc, out = sh("git -C %s apply %s" % (wt, os.path.abspath(patch)))
            assert rc == 0, out
        if props == "all":
            props = ",".join(c["property_id"] for c in json.load(open(os.path.join(HOME, "MANIFEST.json")))["checks"])
        for p in props.split(","):
            t = time.time()
            rc, out = sh("VERIF_REPO=%s timeout 7000 bin/check %s %s" % (wt, p, tier), cwd=HOME, timeout=7100)
            viol = [l for l in out.splitlines() if l.startswith("VIOLATION") or l.strip().startswith("signature=") or l.startswith("INFRA")]
            results[p] = {"exit": rc, "wall_s": round(time.time() - t, 1), "lines": viol[:6]}
            print(name, p, tier, "exit", rc, "%.0fs" % (time.time() - t), " | ".join(v.strip()[:160] for v in viol[:3]), flush=True)
            mp = os.path.join(HOME, "seeded", name, "meta.json")
            if os.path.exists(mp) and json.load(open(mp)).get("property") == p:
                meta = json.load(open(mp))   # a seeded change tried against its own property: keep the outcome with the seed
                meta.setdefault("detection", {})[tier] = {"exit": rc, "wall_s": round(time.time() - t, 1), "lines": viol[:6], "mode": "shadow worktree",
                                                           "verif_commit": sh("git -C %s rev-parse --short HEAD" % HOME)[1].strip()}
                json.dump(meta, open(mp, "w"), indent=1)
    finally:
        if not keep:
            sh("git -C /repo worktree remove --force %s" % wt)
            if any(r["exit"] == 1 for r in results.values()) and os.path.isdir(wt + ".out/replays"):
                keepd = "/var/tmp/verif-scratch/shadow_alarms/%s" % name
                shutil.rmtree(keepd, ignore_errors=True)
                shutil.copytree(wt + ".out/replays", keepd)
            shutil.rmtree(wt + ".out", ignore_errors=True)
    return results


if __name__ == "__main__":
    if sys.argv[1] == "shadow":
        shadow(*sys.argv[2:])
        sys.exit(0)
    if sys.argv[1] == "confirm":
        r = confirm(*sys.argv[2:])
        print(json.dumps({k: v for k, v in r.items() if not k.endswith("_tail")}, indent=1))
        if not r.get("confirmed"):
            print(json.dumps({k: v for k, v in r.items() if k.endswith("_tail")}, indent=1))
    elif sys.argv[1] == "detect":
        rc, viol = detect(*sys.argv[2:])
        print("exit", rc)
        print("\n".join(viol[:6]))
