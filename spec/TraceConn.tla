------------------------------ MODULE TraceConn ------------------------------
(* Trace validation (binding C) of one connection's hook events against the concurrency     *)
(* discipline of WSConn: channel-mutex exclusion with the closed re-check (rules R2/R3 of   *)
(* DESIGN.md), frame atomicity and message ownership of emitted frames, the sender grammar  *)
(* on the library's own emission order, the timeoutLoop hand-off protocol (a context that   *)
(* belonged to a successfully returned call never fires), ping/pong matching, the close     *)
(* handshake bookkeeping and goroutine lifetime.  One event = one step; the trace spec is   *)
(* deterministic, so validation is linear in the trace length.                              *)
(* Input: NDJSON in the tracer's global order, connections separated by TraceReset lines.   *)
EXTENDS WSFrame, TLC, Json, IOUtils, FiniteSets

CONSTANT StrictMsgOwner    \* data frames are emitted by the goroutine that holds the message lock

Log == ndJsonDeserialize(IOEnv.TRACE_FILE)
Locks == {"rd", "wf", "msg", "wmu"}
(* hook events of steps that read from the connection's buffered reader or hand message bytes to the caller (read.go):   *)
(* readFrameHeader, readFramePayload, handleControl, reader and msgReader.Read all run with readMu held                  *)
ReadSteps == {"RdArm", "RdHeader", "RdHeaderErr", "RdPayArm", "RdPayload", "RdPayErr", "RdPayClosed", "CtlPayload", "MsgStart", "MrRead", "MrEnd"}

VARIABLES i, lk, cPre, cPost, late, ws, role, flate,
          sentW, rcvdW, sentR, rcvdR, armedW, armedR, succeeded,
          reg, everReg, ctlReg, pingSent, notified, gor, crG, atCall, wcOK, rcvdCode, bad, skip
vars == <<i, lk, cPre, cPost, late, ws, role, flate, sentW, rcvdW, sentR, rcvdR, armedW, armedR,
          succeeded, reg, everReg, ctlReg, pingSent, notified, gor, crG, atCall, wcOK, rcvdCode, bad, skip>>

Fresh == /\ lk = [x \in Locks |-> 0] /\ cPre = FALSE /\ cPost = FALSE /\ late = {} /\ ws = W0
         /\ role = "server" /\ flate = FALSE
         /\ sentW = <<>> /\ rcvdW = <<>> /\ sentR = <<>> /\ rcvdR = <<>> /\ armedW = 0 /\ armedR = 0
         /\ succeeded = {} /\ reg = {} /\ everReg = {} /\ ctlReg = {} /\ pingSent = {} /\ notified = {} /\ gor = {} /\ crG = 0
         /\ atCall = [x \in {} |-> {}] /\ wcOK = [x \in {} |-> TRUE] /\ rcvdCode = [x \in {} |-> 0]
Init == i = 1 /\ Fresh /\ bad = {} /\ skip = FALSE /\ TLCSet(1, 1) /\ TLCSet(2, 0)

e == Log[i]
state == <<lk, cPre, cPost, late, ws, role, flate, sentW, rcvdW, sentR, rcvdR, armedW, armedR,
           succeeded, reg, everReg, ctlReg, pingSent, notified, gor, crG, atCall, wcOK, rcvdCode>>
Same(vs) == UNCHANGED vs
Fail(why) == /\ bad' = bad \cup {why} /\ skip' = TRUE /\ TLCSet(2, TLCGet(2) + 1) /\ PrintT(<<"REJECTED", i, why, e>>) /\ UNCHANGED state

(* hand-off matching between the sender of a context (writeFrame or readFrameHeader/Payload) and the      *)
(* timeoutLoop that receives it; the two log lines of one hand-off come in either order     *)
Match(mine, other) == IF other # <<>> THEN Head(other) ELSE -99

Put(f, k, v) == [x \in DOMAIN f \cup {k} |-> IF x = k THEN v ELSE f[x]]

Step ==
  /\ i <= Len(Log) /\ i' = i + 1
  /\ CASE skip /\ e.ev # "TraceReset" -> UNCHANGED <<state, bad, skip>>
       [] e.ev = "TraceReset" ->
            /\ lk' = [x \in Locks |-> 0] /\ cPre' = FALSE /\ cPost' = FALSE /\ late' = {} /\ ws' = W0
            /\ role' = "server" /\ flate' = FALSE /\ sentW' = <<>> /\ rcvdW' = <<>> /\ sentR' = <<>> /\ rcvdR' = <<>>
            /\ armedW' = 0 /\ armedR' = 0 /\ succeeded' = {} /\ reg' = {} /\ everReg' = {} /\ ctlReg' = {} /\ pingSent' = {} /\ notified' = {} /\ gor' = {} /\ crG' = 0
            /\ atCall' = [x \in {} |-> {}] /\ wcOK' = [x \in {} |-> TRUE] /\ rcvdCode' = [x \in {} |-> 0] /\ skip' = FALSE /\ UNCHANGED bad
       [] e.ev = "ConnNew" ->
            /\ role' = (IF e.a = 1 THEN "client" ELSE "server") /\ flate' = (e.b # 0)
            /\ UNCHANGED <<lk, cPre, cPost, late, ws, sentW, rcvdW, sentR, rcvdR, armedW, armedR, succeeded, reg, everReg, ctlReg, pingSent, notified, gor, crG, atCall, wcOK, rcvdCode, bad, skip>>
       \* ---------------- channel mutexes (R2/R3) ----------------
       [] e.ev = "LockBegin" /\ e.l \in Locks ->
            /\ late' = IF cPost THEN late \cup {e.g} ELSE late \ {e.g}
            /\ UNCHANGED <<lk, cPre, cPost, ws, role, flate, sentW, rcvdW, sentR, rcvdR, armedW, armedR, succeeded, reg, everReg, ctlReg, pingSent, notified, gor, crG, atCall, wcOK, rcvdCode, bad, skip>>
       [] e.ev = "LockOK" /\ e.l \in Locks ->
            IF lk[e.l] # 0 THEN Fail("lock-acquired-while-held:" \o e.l)
            ELSE IF e.g \in late THEN Fail("lock-acquired-after-connection-closed:" \o e.l)
            ELSE /\ lk' = [lk EXCEPT ![e.l] = e.g]
                 /\ UNCHANGED <<cPre, cPost, late, ws, role, flate, sentW, rcvdW, sentR, rcvdR, armedW, armedR, succeeded, reg, everReg, ctlReg, pingSent, notified, gor, crG, atCall, wcOK, rcvdCode, bad, skip>>
       [] e.ev = "LockAcqSawClosed" /\ e.l \in Locks ->
            IF ~cPre THEN Fail("saw-closed-before-close")
            ELSE /\ lk' = [lk EXCEPT ![e.l] = e.g]
                 /\ UNCHANGED <<cPre, cPost, late, ws, role, flate, sentW, rcvdW, sentR, rcvdR, armedW, armedR, succeeded, reg, everReg, ctlReg, pingSent, notified, gor, crG, atCall, wcOK, rcvdCode, bad, skip>>
       [] e.ev = "LockFailClosed" /\ e.l \in Locks ->
            IF ~cPre THEN Fail("saw-closed-before-close") ELSE Same(state) /\ UNCHANGED <<bad, skip>>
       [] e.ev = "ForceLock" /\ e.l \in Locks ->
            IF lk[e.l] # 0 /\ lk[e.l] # e.g THEN Fail("forcelock-acquired-while-held:" \o e.l)
            ELSE /\ lk' = [lk EXCEPT ![e.l] = e.g]
                 /\ UNCHANGED <<cPre, cPost, late, ws, role, flate, sentW, rcvdW, sentR, rcvdR, armedW, armedR, succeeded, reg, everReg, ctlReg, pingSent, notified, gor, crG, atCall, wcOK, rcvdCode, bad, skip>>
       [] e.ev = "UnlockPre" /\ e.l \in Locks ->
            /\ lk' = [lk EXCEPT ![e.l] = 0]
            /\ UNCHANGED <<cPre, cPost, late, ws, role, flate, sentW, rcvdW, sentR, rcvdR, armedW, armedR, succeeded, reg, everReg, ctlReg, pingSent, notified, gor, crG, atCall, wcOK, rcvdCode, bad, skip>>
       \* ---------------- close() ----------------
       [] e.ev = "ClosedPre" ->
            IF cPre THEN Fail("closed-twice")
            ELSE cPre' = TRUE /\ UNCHANGED <<lk, cPost, late, ws, role, flate, sentW, rcvdW, sentR, rcvdR, armedW, armedR, succeeded, reg, everReg, ctlReg, pingSent, notified, gor, crG, atCall, wcOK, rcvdCode, bad, skip>>
       [] e.ev = "ClosedPost" ->
            IF ~cPre \/ cPost THEN Fail("closed-post-without-pre")
            ELSE cPost' = TRUE /\ UNCHANGED <<lk, cPre, late, ws, role, flate, sentW, rcvdW, sentR, rcvdR, armedW, armedR, succeeded, reg, everReg, ctlReg, pingSent, notified, gor, crG, atCall, wcOK, rcvdCode, bad, skip>>
       [] e.ev \in {"CloseAlready", "RwcClosed"} ->
            IF ~cPost THEN Fail("close-bookkeeping") ELSE Same(state) /\ UNCHANGED <<bad, skip>>
       \* ---------------- writeFrame: the single emission point ----------------
       [] e.ev \in {"WfLocked", "WfPayload", "WfFlushed", "WfArmFail", "WfDisarmClosed", "WfRet"} ->
            IF lk["wf"] # e.g THEN Fail("frame-step-without-frame-lock:" \o e.ev)
            ELSE IF e.ev \in {"WfArmFail", "WfDisarmClosed"} /\ ~cPre THEN Fail("saw-closed-before-close")
            ELSE Same(state) /\ UNCHANGED <<bad, skip>>
       [] e.ev = "WfHeader" ->
            LET h == [fin |-> e.b % 2 = 1, rsv1 |-> (e.b \div 2) % 2 = 1, rsv2 |-> (e.b \div 4) % 2 = 1,
                      rsv3 |-> (e.b \div 8) % 2 = 1, op |-> e.a, masked |-> (e.b \div 16) % 2 = 1, len |-> e.d, key |-> <<>>]
                r == WireStep(ws, h, TRUE, [empty |-> TRUE, codeOK |-> TRUE], role, flate)
            IN IF lk["wf"] # e.g THEN Fail("frame-emitted-without-frame-lock")
               ELSE IF h.op \in DataOps /\ lk["msg"] = 0 THEN Fail("data-frame-without-message-lock")
               ELSE IF StrictMsgOwner /\ h.op \in DataOps /\ lk["msg"] # e.g THEN Fail("data-frame-by-non-owner-of-message")
               ELSE IF ~r.ok THEN Fail(r.why)
               ELSE IF h.op = OpClose /\ e.g \in DOMAIN wcOK /\ ~wcOK[e.g] THEN Fail("close-frame-after-marshal-error")
               ELSE /\ ws' = r.st
                    /\ UNCHANGED <<lk, cPre, cPost, late, role, flate, sentW, rcvdW, sentR, rcvdR, armedW, armedR, succeeded, reg, everReg, ctlReg, pingSent, notified, gor, crG, atCall, wcOK, rcvdCode, bad, skip>>
       \* ---------------- timeoutLoop hand-off ----------------
       [] e.ev \in {"WfArm", "WfDisarm"} ->
            LET v == IF e.ev = "WfArm" THEN e.a ELSE 0 IN
            IF lk["wf"] # e.g THEN Fail("frame-step-without-frame-lock:" \o e.ev)
            ELSE IF rcvdW # <<>> THEN (IF Head(rcvdW) # v THEN Fail("timeoutloop-received-other-write-context")
                                       ELSE rcvdW' = Tail(rcvdW) /\ UNCHANGED <<lk, cPre, cPost, late, ws, role, flate, sentW, sentR, rcvdR, armedW, armedR, succeeded, reg, everReg, ctlReg, pingSent, notified, gor, crG, atCall, wcOK, rcvdCode, bad, skip>>)
            ELSE IF Len(sentW) >= 1 THEN Fail("write-context-handoff-never-received")
            ELSE sentW' = Append(sentW, v) /\ UNCHANGED <<lk, cPre, cPost, late, ws, role, flate, rcvdW, sentR, rcvdR, armedW, armedR, succeeded, reg, everReg, ctlReg, pingSent, notified, gor, crG, atCall, wcOK, rcvdCode, bad, skip>>
       [] e.ev = "TLArmW" ->
            IF sentW # <<>> THEN (IF Head(sentW) # e.a THEN Fail("timeoutloop-received-other-write-context")
                                  ELSE sentW' = Tail(sentW) /\ armedW' = e.a /\ UNCHANGED <<lk, cPre, cPost, late, ws, role, flate, rcvdW, sentR, rcvdR, armedR, succeeded, reg, everReg, ctlReg, pingSent, notified, gor, crG, atCall, wcOK, rcvdCode, bad, skip>>)
            ELSE IF Len(rcvdW) >= 1 THEN Fail("timeoutloop-received-unsent-write-context")
            ELSE rcvdW' = Append(rcvdW, e.a) /\ armedW' = e.a /\ UNCHANGED <<lk, cPre, cPost, late, ws, role, flate, sentW, sentR, rcvdR, armedR, succeeded, reg, everReg, ctlReg, pingSent, notified, gor, crG, atCall, wcOK, rcvdCode, bad, skip>>
       \* ---------------- the read side: every step that consumes input or hands bytes over is taken under readMu ----------------
       \* (MrRead with no bytes and an error is the line of a call that is on its way OUT: when the read loop's closeWith(true) had to give
       \* up readMu for a closer that was already inside close(), and then finds the connection closed, it returns without the lock)
       [] e.ev \in ReadSteps /\ lk["rd"] # e.g /\ ~(e.ev = "MrRead" /\ e.a = 0 /\ e.b # 0) -> Fail("read-step-without-read-lock:" \o e.ev)
       [] e.ev \in {"RdArm", "RdPayArm", "RdHeader", "RdPayload"} ->
            LET v == IF e.ev \in {"RdArm", "RdPayArm"} THEN e.a ELSE 0 IN
            IF rcvdR # <<>> THEN (IF Head(rcvdR) # v THEN Fail("timeoutloop-received-other-read-context")
                                  ELSE rcvdR' = Tail(rcvdR) /\ UNCHANGED <<lk, cPre, cPost, late, ws, role, flate, sentW, rcvdW, sentR, armedW, armedR, succeeded, reg, everReg, ctlReg, pingSent, notified, gor, crG, atCall, wcOK, rcvdCode, bad, skip>>)
            ELSE IF Len(sentR) >= 1 THEN Fail("read-context-handoff-never-received")
            ELSE sentR' = Append(sentR, v) /\ UNCHANGED <<lk, cPre, cPost, late, ws, role, flate, sentW, rcvdW, rcvdR, armedW, armedR, succeeded, reg, everReg, ctlReg, pingSent, notified, gor, crG, atCall, wcOK, rcvdCode, bad, skip>>
       [] e.ev = "TLArmR" ->
            IF sentR # <<>> THEN (IF Head(sentR) # e.a THEN Fail("timeoutloop-received-other-read-context")
                                  ELSE sentR' = Tail(sentR) /\ armedR' = e.a /\ UNCHANGED <<lk, cPre, cPost, late, ws, role, flate, sentW, rcvdW, rcvdR, armedW, succeeded, reg, everReg, ctlReg, pingSent, notified, gor, crG, atCall, wcOK, rcvdCode, bad, skip>>)
            ELSE IF Len(rcvdR) >= 1 THEN Fail("timeoutloop-received-unsent-read-context")
            ELSE rcvdR' = Append(rcvdR, e.a) /\ armedR' = e.a /\ UNCHANGED <<lk, cPre, cPost, late, ws, role, flate, sentW, rcvdW, sentR, armedW, succeeded, reg, everReg, ctlReg, pingSent, notified, gor, crG, atCall, wcOK, rcvdCode, bad, skip>>
       [] e.ev \in {"TLFireR", "TLFireW"} ->
            IF e.a > 0 /\ e.a \in succeeded THEN Fail("context-of-successful-call-closed-the-connection")
            ELSE IF e.ev = "TLFireR" /\ armedR # e.a THEN Fail("timeoutloop-fired-unarmed-read-context")
            ELSE IF e.ev = "TLFireW" /\ armedW # e.a THEN Fail("timeoutloop-fired-unarmed-write-context")
            ELSE Same(state) /\ UNCHANGED <<bad, skip>>
       [] e.ev = "ApiEnd" ->
            /\ succeeded' = IF e.b = 0 /\ e.a > 0 THEN succeeded \cup {e.a} ELSE succeeded
            /\ UNCHANGED <<lk, cPre, cPost, late, ws, role, flate, sentW, rcvdW, sentR, rcvdR, armedW, armedR, reg, everReg, ctlReg, pingSent, notified, gor, crG, atCall, wcOK, rcvdCode, bad, skip>>
       \* ---------------- pings ----------------
       [] e.ev = "PingReg" ->
            reg' = reg \cup {e.s} /\ everReg' = everReg \cup {e.s} /\ UNCHANGED <<ctlReg, pingSent, lk, cPre, cPost, late, ws, role, flate, sentW, rcvdW, sentR, rcvdR, armedW, armedR, succeeded, notified, gor, crG, atCall, wcOK, rcvdCode, bad, skip>>
       \* PongRcvd is logged after the lookup in activePings (outside its mutex): a Ping may register or unregister between the
       \* lookup and the log line.  Rule R3: "matched" needs the payload to have been registered at some time; "not matched" is
       \* wrong only if the payload was registered when this frame's payload was logged (CtlPayload, before the lookup) and still is.
       [] e.ev = "CtlPayload" /\ e.a = OpPong ->
            ctlReg' = reg /\ UNCHANGED <<lk, cPre, cPost, late, ws, role, flate, sentW, rcvdW, sentR, rcvdR, armedW, armedR, succeeded, reg, everReg, pingSent, notified, gor, crG, atCall, wcOK, rcvdCode, bad, skip>>
       [] e.ev = "PongRcvd" ->
            IF e.a = 1 /\ e.s \notin everReg THEN Fail("pong-matched-against-wrong-ping-set")
            ELSE IF e.a = 0 /\ e.s \in ctlReg /\ e.s \in reg THEN Fail("pong-matched-against-wrong-ping-set")
            ELSE notified' = (IF e.a = 1 THEN notified \cup {e.s} ELSE notified)
                 /\ UNCHANGED <<lk, cPre, cPost, late, ws, role, flate, sentW, rcvdW, sentR, rcvdR, armedW, armedR, succeeded, reg, everReg, ctlReg, pingSent, gor, crG, atCall, wcOK, rcvdCode, bad, skip>>
       [] e.ev = "PingResPong" ->
            IF e.s \notin notified THEN Fail("ping-returned-nil-without-its-own-pong")
            ELSE Same(state) /\ UNCHANGED <<bad, skip>>
       [] e.ev = "PingResClosed" ->
            IF ~cPre THEN Fail("saw-closed-before-close") ELSE Same(state) /\ UNCHANGED <<bad, skip>>
       \* the ping frame that has just been written (hook WfCtl, under writeFrameMu) carries the payload of a registered ping
       \* that no other ping frame in flight carries: "concurrent pings are each matched to their own pong"
       [] e.ev = "WfCtl" /\ e.a = OpPing ->
            IF e.s \notin reg THEN Fail("ping-frame-payload-is-not-a-registered-ping")
            ELSE IF e.s \in pingSent THEN Fail("two-ping-frames-in-flight-with-the-same-payload")
            ELSE pingSent' = pingSent \cup {e.s}
                 /\ UNCHANGED <<lk, cPre, cPost, late, ws, role, flate, sentW, rcvdW, sentR, rcvdR, armedW, armedR, succeeded, reg, everReg, ctlReg, notified, gor, crG, atCall, wcOK, rcvdCode, bad, skip>>
       [] e.ev = "PingUnreg" ->
            /\ reg' = reg \ {e.s} /\ notified' = notified \ {e.s} /\ pingSent' = pingSent \ {e.s}
            /\ UNCHANGED <<lk, cPre, cPost, late, ws, role, flate, sentW, rcvdW, sentR, rcvdR, armedW, armedR, succeeded, everReg, ctlReg, gor, crG, atCall, wcOK, rcvdCode, bad, skip>>
       \* ---------------- close handshake ----------------
       [] e.ev = "WcBegin" ->
            \* e.a = code, e.b = error class of marshalling the close body (0 = ok)
            IF e.b = 0 /\ ~(e.a = 1005 \/ ValidWireCode(e.a)) THEN Fail("unsendable-close-code-marshalled")
            ELSE IF e.g \in DOMAIN rcvdCode /\ rcvdCode[e.g] # 0 /\ rcvdCode[e.g] # e.a THEN Fail("received-close-echoed-with-another-code")
            ELSE wcOK' = Put(wcOK, e.g, e.b = 0)
                 /\ UNCHANGED <<lk, cPre, cPost, late, ws, role, flate, sentW, rcvdW, sentR, rcvdR, armedW, armedR, succeeded, reg, everReg, ctlReg, pingSent, notified, gor, crG, atCall, rcvdCode, bad, skip>>
       [] e.ev = "CloseRcvd" ->
            IF ~(e.a = 1005 \/ ValidWireCode(e.a)) THEN Fail("invalid-close-code-accepted")
            ELSE rcvdCode' = Put(rcvdCode, e.g, e.a)
                 /\ UNCHANGED <<lk, cPre, cPost, late, ws, role, flate, sentW, rcvdW, sentR, rcvdR, armedW, armedR, succeeded, reg, everReg, ctlReg, pingSent, notified, gor, crG, atCall, wcOK, bad, skip>>
       [] e.ev \in {"CloseCall", "CloseNowCall"} ->
            atCall' = Put(atCall, e.g, gor)
            /\ UNCHANGED <<lk, cPre, cPost, late, ws, role, flate, sentW, rcvdW, sentR, rcvdR, armedW, armedR, succeeded, reg, everReg, ctlReg, pingSent, notified, gor, crG, wcOK, rcvdCode, bad, skip>>
       [] e.ev \in {"CloseRet", "CloseNowRet"} ->
            LET before == IF e.g \in DOMAIN atCall THEN atCall[e.g] ELSE {}
                alive == (before \cap gor) \ (IF crG = e.g THEN {"cr"} ELSE {})
            IN IF alive # {} THEN Fail("library-goroutine-alive-when-close-returned")
               ELSE IF ~cPre THEN Fail("close-returned-with-connection-open")   \* R3: the flag flips between ClosedPre and ClosedPost
               ELSE Same(state) /\ UNCHANGED <<bad, skip>>
       [] e.ev = "WgTimeout" -> Fail("close-needed-the-15s-goroutine-backstop")
       \* ---------------- goroutines ----------------
       [] e.ev = "TLStart" -> gor' = gor \cup {"tl"} /\ UNCHANGED <<lk, cPre, cPost, late, ws, role, flate, sentW, rcvdW, sentR, rcvdR, armedW, armedR, succeeded, reg, everReg, ctlReg, pingSent, notified, crG, atCall, wcOK, rcvdCode, bad, skip>>
       [] e.ev = "TLExit"  -> IF ~cPre THEN Fail("timeoutloop-exited-with-connection-open")
                              ELSE gor' = gor \ {"tl"} /\ UNCHANGED <<lk, cPre, cPost, late, ws, role, flate, sentW, rcvdW, sentR, rcvdR, armedW, armedR, succeeded, reg, everReg, ctlReg, pingSent, notified, crG, atCall, wcOK, rcvdCode, bad, skip>>
       [] e.ev = "CrStart" -> gor' = gor \cup {"cr"} /\ crG' = e.g /\ UNCHANGED <<lk, cPre, cPost, late, ws, role, flate, sentW, rcvdW, sentR, rcvdR, armedW, armedR, succeeded, reg, everReg, ctlReg, pingSent, notified, atCall, wcOK, rcvdCode, bad, skip>>
       [] e.ev = "CrExit"  -> IF ~cPost THEN Fail("closeread-goroutine-exited-with-connection-open")
                              ELSE gor' = gor \ {"cr"} /\ UNCHANGED <<lk, cPre, cPost, late, ws, role, flate, sentW, rcvdW, sentR, rcvdR, armedW, armedR, succeeded, reg, everReg, ctlReg, pingSent, notified, crG, atCall, wcOK, rcvdCode, bad, skip>>
       \* ---------------- pooled objects (C07): handed back only by the goroutine that holds the lock guarding them ----------------
       \* c.bw is written under writeFrameMu, the flate writer under msgWriter.writeMu, c.br / the flate reader / its window and
       \* bufio under readMu: whoever puts one into its pool while another goroutine is inside that lock gives the next
       \* connection an object that is still being written
       [] e.ev = "PoolPut" /\ e.s \in {"bw", "fw", "br", "fr", "sw", "fbr"} ->
            LET need == CASE e.s = "bw" -> "wf" [] e.s = "fw" -> "wmu" [] OTHER -> "rd" IN
            IF lk[need] # e.g THEN Fail("pooled-object-released-without-its-lock:" \o e.s) ELSE Same(state) /\ UNCHANGED <<bad, skip>>
       [] OTHER -> Same(state) /\ UNCHANGED <<bad, skip>>
Next == Step
HW == TLCSet(1, IF TLCGet(1) < i THEN i ELSE TLCGet(1))
Accepted == TLCGet(1) = Len(Log) + 1 /\ TLCGet(2) = 0
Report == TRUE
=============================================================================
