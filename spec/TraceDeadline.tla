---------------------------- MODULE TraceDeadline ----------------------------
(* Binding C for C18's deadline machinery: hook events of REAL executions of one direction    *)
(* (read or write) of a NetConn adapter -- an application goroutine calling Read/Write, other  *)
(* goroutines setting deadlines, the runtime's timer callbacks -- are replayed through         *)
(* WSDeadline's own actions, the ones TLC explores exhaustively.  A trace is accepted iff it   *)
(* is (a prefix of) a behaviour of WSDeadline; its invariants are evaluated in every state on  *)
(* the way.  run/core.py cuts the global trace into one sub-trace per (connection, direction), *)
(* separated by NcReset lines; nothing else is done to the lines.                              *)
(*   NcSetBegin(cls) / NcSet   SetRead/WriteDeadline, under the timer mutex, before it changes  *)
(*                   anything and after it has changed everything: 0 = cleared, 1 = a time     *)
(*                   that has passed, 3 = more than 5 s ahead ("far": cannot pass within an    *)
(*                   execution), 2 = ahead and will pass.  The call in progress looks at the   *)
(*                   expired flag WITHOUT the timer mutex, so the flag's reset can be seen     *)
(*                   before the closing line is written: SetDeadline is placed anywhere        *)
(*                   between the two lines                                                      *)
(*   NcCbEnter / NcCbStale / NcTimerActive / NcTimerIdle   the callback, under the timer mutex *)
(*   NcEntry(flag)   the entry check of a call, under the timer mutex: the expired flag as the *)
(*                   check leaves it                                                            *)
(*   ForceLock / UnlockPre   the call lock: logged after the acquisition / before the release  *)
(*   NcCallEnd(deadline?)    what the call returns, logged while it still holds the call lock  *)
(* What has no line is taken silently (each such step can be taken once per deadline set or   *)
(* per call, so no bound on their number is needed): time passing                              *)
(* (Tick), the runtime starting a callback (Fire), the call's look at the flag inside the lock *)
(* (CallCheck), and the two steps whose line lags behind or runs ahead of the step itself: the *)
(* acquisition of the call lock (its line follows it) and its release (its line precedes it).  *)
EXTENDS WSDeadline, Sequences, Json, IOUtils

Log == ndJsonDeserialize(IOEnv.TRACE_FILE)
VARIABLES l,     \* next line
          cg,    \* goroutine of the application's calls in this direction (0: none seen yet)
          pun,   \* the call's UnlockPre line has been read, its CallUnlock has not been placed yet
          pset   \* the deadline of a SetDeadline that has logged NcSetBegin and whose step has not been placed yet ("no": none)
tvars == <<l, cg, pun, pset>>
e == Log[l]
Cls(d) == IF d = 0 THEN "none" ELSE IF d = 1 THEN "past" ELSE IF d = 3 THEN "far" ELSE "future"   \* classes computed by the driver from the time left

TInit == Init /\ l = 1 /\ cg = 0 /\ pun = FALSE /\ pset = "no" /\ TLCSet(1, 1)

(* NcTimerIdle: the callback got the call lock, marks the direction expired and lets go of both locks; the line is written while *)
(* it holds both, so nobody can have observed the steps in between: CbIdle . CbMark as one step                                  *)
CbIdleMark(c) == /\ c.pc = "check" /\ ~CbStaleCond /\ callLock = 0
                 /\ expired' = TRUE /\ tmu' = 0 /\ inflight' = inflight \ {c}
                 /\ UNCHANGED <<deadline, armed, nextId, cancelled, callLock, sets, call, res, badCancel>>
(* CallCheck . CallEnd for a call whose look at the flag has not been placed yet *)
CallCheckEnd == /\ call' = [call EXCEPT !.pc = "ret"] /\ res' = IF cancelled THEN "cancelled" ELSE "ok"
                /\ UNCHANGED <<deadline, armed, inflight, nextId, expired, cancelled, callLock, sets, tmu, badCancel>>
(* callbacks that have been started and have not run yet are indistinguishable: the one started first enters *)
Starts == { c \in inflight : c.pc = "start" }
Oldest == { c \in Starts : \A d \in Starts : c.id <= d.id }
(* The runtime starts the callback of a timer whose time has come at some moment of its choosing; nothing in the model depends on *)
(* how long a started callback waits before it enters (CbEnter is never forced), so a behaviour in which Fire is taken later is    *)
(* simulated by the one in which it is taken at once: Fire has priority over every other step.                                     *)
FireNow == armed /\ deadline = "past"
Cur == { c \in inflight : c.id = tmu }
Reset == /\ deadline' = "none" /\ armed' = FALSE /\ inflight' = {} /\ nextId' = 1 /\ expired' = FALSE /\ cancelled' = FALSE
         /\ callLock' = 0 /\ sets' = 0 /\ tmu' = 0 /\ call' = [pc |-> "idle", late |-> FALSE, n |-> 0] /\ res' = "none" /\ badCancel' = FALSE
Stutter == UNCHANGED vars
Mapped ==
  CASE e.ev = "NcReset" -> Reset
    [] e.ev = "NcSetBegin" -> pset = "no" /\ Stutter
    [] e.ev = "NcSet" -> IF pset = "no" THEN Stutter ELSE SetDeadline(pset)
    [] e.ev = "NcCbEnter" -> \E c \in Oldest : CbEnter(c)
    [] e.ev = "NcCbStale" -> \E c \in Cur : CbStale(c)
    [] e.ev = "NcTimerActive" -> \E c \in Cur : CbActive(c)
    [] e.ev = "NcTimerIdle" -> \E c \in Cur : CbIdleMark(c)
    [] e.ev = "NcEntry" -> ~pun /\ CallEntry /\ expired' = (e.b = 1)
    [] e.ev = "ForceLock" -> IF call.pc = "entered" THEN CallLock ELSE call.pc = "locked" /\ Stutter
    [] e.ev = "NcCallEnd" ->
         IF e.d = 1 THEN \/ call.pc = "ret" /\ res = "deadline" /\ Stutter              \* the look at the flag was placed earlier
                         \/ call.pc = "locked" /\ expired /\ CallCheck
         ELSE \/ call.pc = "checked" /\ CallEnd
              \/ call.pc = "locked" /\ ~expired /\ CallCheckEnd
    [] e.ev = "UnlockPre" -> IF e.g = cg THEN call.pc = "ret" /\ ~pun /\ Stutter ELSE Stutter   \* the callback's own release: see CbIdleMark
    [] OTHER -> Stutter
Consume == /\ ~FireNow /\ l <= Len(Log) /\ l' = l + 1
           /\ cg' = IF e.ev = "NcReset" THEN 0 ELSE IF e.ev = "NcEntry" THEN e.g ELSE cg
           /\ pun' = IF e.ev = "NcReset" THEN FALSE ELSE IF e.ev = "UnlockPre" /\ e.g = cg THEN TRUE ELSE pun
           /\ pset' = IF e.ev \in {"NcReset", "NcSet"} THEN "no" ELSE IF e.ev = "NcSetBegin" THEN Cls(e.b) ELSE pset
           /\ Mapped
Silent == /\ l <= Len(Log) /\ l' = l /\ cg' = cg
          /\ IF FireNow THEN Fire /\ UNCHANGED <<pun, pset>>
             ELSE \/ Tick /\ UNCHANGED <<pun, pset>>
                  \/ call.pc = "entered" /\ CallLock /\ UNCHANGED <<pun, pset>>
                  \/ call.pc = "locked" /\ CallCheck /\ UNCHANGED <<pun, pset>>
                  \/ pun /\ CallUnlock /\ pun' = FALSE /\ pset' = pset
                  \/ pset # "no" /\ SetDeadline(pset) /\ pset' = "no" /\ pun' = pun
TNext == Consume \/ Silent
HW == TLCSet(1, IF TLCGet(1) < l THEN l ELSE TLCGet(1))
Accepted == IF TLCGet(1) = Len(Log) + 1 THEN TRUE
            ELSE PrintT(<<"REJECTED", TLCGet(1), "not-a-behaviour-of-WSDeadline", Log[TLCGet(1)]>>) /\ FALSE
=============================================================================
