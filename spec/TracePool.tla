------------------------------ MODULE TracePool ------------------------------
(* Trace validation (binding C) of pooled-object ownership across connections (C07).        *)
(* Events of ALL connections in the tracer's single global order:                           *)
(*   PoolGet(c, kind, o)  connection c took object o (bufio reader/writer, flate reader/     *)
(*                        writer, sliding window) for its exclusive use                      *)
(*   PoolPut(c, kind, o)  c handed o back to the shared pool                                 *)
(*   UseBegin/UseEnd(c, kind, o)  c is inside a call into o (an interval, not a point)       *)
(*   CloseExit(c)         c's close() finished: what c still owns can only be reached from   *)
(*                        c's own unwinding stack and is dropped afterwards                  *)
(* A flate reader reads through the connection's flate bufio reader (wraps), so an open      *)
(* interval on the former is an open interval on the latter.                                 *)
EXTENDS Integers, Sequences, FiniteSets, TLC, Json, IOUtils

Log == ndJsonDeserialize(IOEnv.TRACE_FILE)
VARIABLES i, owner, open, wraps, fbrOf, dead
vars == <<i, owner, open, wraps, fbrOf, dead>>
Init == i = 1 /\ owner = [x \in {} |-> 0] /\ open = {} /\ wraps = {} /\ fbrOf = [x \in {} |-> 0] /\ dead = {}
        /\ TLCSet(1, 1) /\ TLCSet(2, 0)
e == Log[i]
(* object identity = <<kind, address>>: an address can be reused by an object of another kind after a GC *)
O == <<e.s, e.a>>
Known(o) == o \in DOMAIN owner
Put2(f, k, v) == [x \in DOMAIN f \cup {k} |-> IF x = k THEN v ELSE f[x]]
(* o itself is in use, or an object that reads through o is *)
InUse(o) == \E u \in open : u[2] = o \/ <<u[2], o>> \in wraps
Fail(why) == /\ TLCSet(2, TLCGet(2) + 1) /\ PrintT(<<"REJECTED", i, why, e>>)
Step ==
  /\ i <= Len(Log) /\ i' = i + 1
  /\ CASE e.ev = "PoolReset" ->
            owner' = [x \in {} |-> 0] /\ open' = {} /\ wraps' = {} /\ fbrOf' = [x \in {} |-> 0] /\ dead' = {}
       [] e.ev = "PoolGet" ->
            /\ (Known(O) /\ owner[O] # 0 /\ owner[O] # e.c /\ owner[O] \notin dead) => Fail("pooled-object-handed-out-while-owned-by-another-connection")
            /\ owner' = Put2(owner, O, e.c)
            /\ fbrOf' = IF e.s = "fbr" THEN Put2(fbrOf, e.c, O) ELSE fbrOf
            /\ wraps' = IF e.s = "fr" /\ e.c \in DOMAIN fbrOf THEN {w \in wraps : w[1] # O} \cup {<<O, fbrOf[e.c]>>} ELSE wraps
            /\ UNCHANGED <<open, dead>>
       [] e.ev = "PoolPut" ->
            /\ (e.s # "sw" /\ Known(O) /\ owner[O] # e.c /\ owner[O] \notin dead) => Fail("pooled-object-put-by-a-connection-that-does-not-own-it")
            /\ (Known(O) /\ owner[O] = e.c /\ InUse(O)) => Fail("pooled-object-put-while-a-call-into-it-is-in-progress")
            /\ owner' = Put2(owner, O, 0)
            /\ UNCHANGED <<open, wraps, fbrOf, dead>>
       [] e.ev = "UseBegin" ->
            /\ (e.a # 0 /\ Known(O) /\ owner[O] # e.c) => Fail("use-of-pooled-object-not-owned-by-this-connection")
            /\ open' = IF e.a = 0 THEN open ELSE open \cup {<<e.c, O>>}
            /\ UNCHANGED <<owner, wraps, fbrOf, dead>>
       [] e.ev = "UseEnd" ->
            open' = open \ {<<e.c, O>>} /\ UNCHANGED <<owner, wraps, fbrOf, dead>>
       [] e.ev = "CloseExit" ->
            dead' = dead \cup {e.c} /\ UNCHANGED <<owner, open, wraps, fbrOf>>
       [] OTHER -> UNCHANGED <<owner, open, wraps, fbrOf, dead>>
Next == Step
HW == TLCSet(1, IF TLCGet(1) < i THEN i ELSE TLCGet(1))
Accepted == TLCGet(1) = Len(Log) + 1 /\ TLCGet(2) = 0
=============================================================================
