------------------------------ MODULE TraceRecv ------------------------------
(* Trace validation (binding C) of the INBOUND side of a connection against the reference   *)
(* decoder WSRecv: the hook events the library logs while it reads frames (RdHeader,        *)
(* RdPayload, CtlPayload, PongRcvd, CloseRcvd, MsgStart, MrRead, MrEnd, LrLimitHit,         *)
(* SetLimit) are replayed through WSRecv's own action PeerSend -- the state machine TLC     *)
(* model-checks in WSRecv.mc.cfg -- and every reaction of the library is compared with the  *)
(* reaction React prescribes for that frame in that decoder state:                          *)
(*   C03  a frame with a protocol violation is never acted on (no message started from it,  *)
(*        no pong/close processing, none of its bytes handed over);                         *)
(*   C04  the end of a message is reported only after a FIN frame whose payload was read    *)
(*        completely, and an uncompressed message is handed over byte for byte;             *)
(*   C08  never more than limit+1 bytes of one message are handed over, a message longer    *)
(*        than the limit is never reported complete, the limit error only comes when due;   *)
(*   C15  a Pong is only written for a received Ping;                                       *)
(*   framing: a header is only parsed at a frame boundary (every payload byte of the        *)
(*        previous frame was consumed) and, when the peer is the harness's scripted raw     *)
(*        peer (PeerSent events, logged before the bytes are written), the headers the      *)
(*        library parses are exactly the headers that were sent, in order.                  *)
(* One event = one step; the trace spec is deterministic.  Connections are separated by     *)
(* TraceReset lines; the runner partitions traces by "permessage-deflate negotiated" so     *)
(* that WSRecv's constant Flate is right for every connection of a file.                    *)
EXTENDS WSRecv, Json, IOUtils, Sequences

Log == ndJsonDeserialize(IOEnv.TRACE_FILE)

VARIABLES i, role, scripted, sentq, cur, rem, failed, msg, limI, limSure, rdG, pingq, bad, skip
(* st, hist, out are WSRecv's variables: decoder state, frames seen, reactions *)
tvars == <<i, role, scripted, sentq, cur, rem, failed, msg, limI, limSure, rdG, pingq, bad, skip>>
allvars == <<vars, tvars>>

(* the message being handed to the application: done = its final frame has been consumed completely (frames read after   *)
(* that, e.g. by a concurrent Close discarding input, belong to later messages)                                            *)
NoMsg == [on |-> FALSE, comp |-> FALSE, handed |-> 0, bytes |-> 0, lim |-> 0, sure |-> FALSE, done |-> FALSE]
NoCur == [op |-> -1, kind |-> "none", rsv1 |-> FALSE, len |-> 0, code |-> 0]
DefaultLimit == 32769     \* the library stores limit+1 (it reads one byte more to see the end)

FreshT == /\ role = "server" /\ scripted = FALSE /\ sentq = <<>> /\ cur = NoCur /\ rem = 0 /\ failed = FALSE
          /\ msg = NoMsg /\ limI = DefaultLimit /\ limSure = TRUE /\ rdG = 0 /\ pingq = <<>>
TInit == Init /\ i = 1 /\ FreshT /\ bad = {} /\ skip = FALSE /\ TLCSet(1, 1) /\ TLCSet(2, 0)

e == Log[i]
tstate == <<role, scripted, sentq, cur, rem, failed, msg, limI, limSure, rdG, pingq>>
Same == UNCHANGED <<vars, tstate, bad, skip>>
Fail(why) == /\ bad' = bad \cup {why} /\ skip' = TRUE /\ TLCSet(2, TLCGet(2) + 1) /\ PrintT(<<"REJECTED", i, why, e>>)
             /\ UNCHANGED <<vars, tstate>>

Bit(x, k) == (x \div k) % 2 = 1
(* the frame a logged header denotes; the Close code comes from the peer's own record when there is one *)
FrameOf(op, flags, len, code) ==
  F("trace", op, Bit(flags, 1), Bit(flags, 2), Bit(flags, 4), Bit(flags, 8),
    Bit(flags, 16) = (role = "server"), IF len < 0 THEN 0 ELSE len, len < 0, code)

(* what is judged: everything up to the first violating or Close frame, then the reaction to that frame itself *)
(* (until the next header); afterwards the statement of C03 leaves the behaviour open                          *)
Live == ~st.dead \/ failed \/ cur.kind = "close"

HeaderStep ==
  LET sent == IF scripted /\ sentq # <<>> THEN Head(sentq) ELSE [op |-> e.a, flags |-> e.b, len |-> e.d, code |-> IF e.a = OpClose /\ e.d >= 2 THEN 1000 ELSE 0]
      f == FrameOf(e.a, e.b, e.d, sent.code)
      r == React(st, f, Len(hist) + 1, Flate)
  IN IF st.dead THEN /\ cur' = NoCur /\ failed' = FALSE
                     /\ UNCHANGED <<vars, role, scripted, sentq, rem, msg, limI, limSure, rdG, pingq, bad, skip>>
     ELSE IF rem # 0 THEN Fail("frame-header-parsed-inside-previous-payload")
     ELSE IF scripted /\ sentq = <<>> THEN Fail("frame-parsed-that-the-peer-never-sent")
     ELSE IF scripted /\ (sent.op # e.a \/ sent.flags # e.b \/ sent.len # e.d) THEN Fail("frame-header-differs-from-the-one-sent")
     ELSE /\ PeerSend(f)                        \* WSRecv's action: st, hist, out
          /\ cur' = [op |-> e.a, kind |-> r.kind, rsv1 |-> Bit(e.b, 2), len |-> e.d, code |-> sent.code]
          /\ rem' = IF e.d < 0 THEN 0 ELSE e.d
          /\ failed' = (r.kind = "fail")
          /\ sentq' = IF scripted THEN Tail(sentq) ELSE sentq
          /\ rdG' = e.g
          /\ msg' = IF msg.on /\ ~msg.done /\ r.kind = "last" /\ e.d = 0 THEN [msg EXCEPT !.done = TRUE] ELSE msg
          /\ UNCHANGED <<role, scripted, limI, limSure, pingq, bad, skip>>

PayloadStep(n) ==
  IF ~Live \/ failed THEN Same
  ELSE IF n > rem THEN Fail("payload-read-beyond-the-frame")
  ELSE /\ rem' = rem - n
       /\ msg' = IF cur.op \in DataOps /\ msg.on /\ ~msg.done
                 THEN [msg EXCEPT !.bytes = @ + n, !.done = (rem = n /\ cur.kind \in {"whole", "last"})] ELSE msg
       /\ UNCHANGED <<vars, role, scripted, sentq, cur, failed, limI, limSure, rdG, pingq, bad, skip>>

Step ==
  /\ i <= Len(Log) /\ i' = i + 1
  /\ CASE skip /\ e.ev # "TraceReset" -> Same
       [] e.ev = "TraceReset" ->
            /\ st' = St0 /\ hist' = <<>> /\ out' = <<>>
            /\ role' = "server" /\ scripted' = FALSE /\ sentq' = <<>> /\ cur' = NoCur /\ rem' = 0 /\ failed' = FALSE
            /\ msg' = NoMsg /\ limI' = DefaultLimit /\ limSure' = TRUE /\ rdG' = 0 /\ pingq' = <<>> /\ skip' = FALSE /\ UNCHANGED bad
       [] e.ev = "ConnNew" ->
            /\ role' = (IF e.a = 1 THEN "client" ELSE "server")
            /\ UNCHANGED <<vars, scripted, sentq, cur, rem, failed, msg, limI, limSure, rdG, pingq, bad, skip>>
       [] e.ev = "PeerScripted" ->
            scripted' = TRUE /\ UNCHANGED <<vars, role, sentq, cur, rem, failed, msg, limI, limSure, rdG, pingq, bad, skip>>
       [] e.ev = "PeerSent" ->
            /\ sentq' = Append(sentq, [op |-> e.a, flags |-> e.b, len |-> e.d, code |-> e.e])
            /\ UNCHANGED <<vars, role, scripted, cur, rem, failed, msg, limI, limSure, rdG, pingq, bad, skip>>
       [] e.ev = "RdHeader" -> HeaderStep
       [] e.ev \in {"RdPayload", "RdPayErr", "RdPayClosed"} -> PayloadStep(e.a)
       [] e.ev = "SetLimit" ->
            \* a limit set by another goroutine while frames are being read cannot be ordered against the reader by the trace
            \* ... and a limit set while a message is being read: the statement does not say which limit governs that message (the table
            \* of the limit driver, WSRecv!MidOutcome, judges what holds under either reading)
            /\ limI' = e.a /\ limSure' = (limSure /\ (rdG = 0 \/ rdG = e.g))
            /\ msg' = IF msg.on THEN [msg EXCEPT !.sure = FALSE] ELSE msg
            /\ UNCHANGED <<vars, role, scripted, sentq, cur, rem, failed, rdG, pingq, bad, skip>>
       [] ~Live -> Same
       \* ---------------- control frames ----------------
       [] e.ev = "CtlPayload" ->
            IF failed THEN (IF e.a # OpClose THEN Fail("control-frame-with-violation-processed") ELSE Same)   \* a Close body is validated after it is read
            ELSE IF cur.op # e.a \/ rem # 0 THEN Fail("control-payload-not-of-the-current-frame")
            ELSE IF e.a = OpPing THEN /\ pingq' = Append(pingq, e.s)      \* pings to be answered, in the order received
                                      /\ UNCHANGED <<vars, role, scripted, sentq, cur, rem, failed, msg, limI, limSure, rdG, bad, skip>>
            ELSE Same
       [] e.ev = "PongRcvd" ->
            IF failed THEN Fail("violating-frame-acted-on:pong")
            ELSE IF cur.op # OpPong THEN Fail("pong-processing-for-a-frame-that-is-not-a-pong")    \* e.g. a peer's Ping settling a local Ping
            ELSE Same
       [] e.ev = "CloseRcvd" ->
            IF failed THEN Fail("invalid-close-frame-accepted")
            ELSE IF cur.op # OpClose THEN Fail("close-reported-without-a-close-frame")
            ELSE IF scripted /\ cur.len = 0 /\ (e.a # 1005 \/ e.b # 0) THEN Fail("close-error-differs-from-the-frame")
            ELSE IF scripted /\ cur.len >= 2 /\ (e.a # cur.code \/ e.b # cur.len - 2) THEN Fail("close-error-differs-from-the-frame")
            ELSE Same
       \* every Pong frame written (hook WfCtl, payload as written) answers the oldest unanswered Ping, byte for byte
       [] e.ev = "WfCtl" /\ e.a = OpPong ->
            IF pingq = <<>> THEN Fail("pong-written-without-a-received-ping")
            ELSE IF Head(pingq) # e.s THEN Fail("pong-does-not-echo-the-next-received-ping")
            ELSE pingq' = Tail(pingq) /\ UNCHANGED <<vars, role, scripted, sentq, cur, rem, failed, msg, limI, limSure, rdG, bad, skip>>
       \* ---------------- messages ----------------
       [] e.ev = "MsgStart" ->
            IF failed THEN Fail("message-started-from-a-violating-frame")
            ELSE IF cur.kind \notin {"whole", "first"} \/ cur.op # e.a \/ cur.rsv1 # (e.b = 1) THEN Fail("message-start-does-not-match-its-first-frame")
            ELSE /\ msg' = [on |-> TRUE, comp |-> cur.rsv1, handed |-> 0, bytes |-> 0, lim |-> limI, sure |-> limSure,
                            done |-> (cur.kind = "whole" /\ rem = 0)]
                 /\ UNCHANGED <<vars, role, scripted, sentq, cur, rem, failed, limI, limSure, rdG, pingq, bad, skip>>
       [] e.ev = "MrRead" ->
            LET h == msg.handed + e.a IN
            IF ~msg.on THEN (IF e.a > 0 THEN Fail("bytes-handed-over-without-a-message") ELSE Same)
            ELSE IF msg.sure /\ msg.lim >= 0 /\ h > msg.lim THEN Fail("more-than-limit-plus-one-bytes-handed-over")
            ELSE IF ~msg.comp /\ h > msg.bytes THEN Fail("more-bytes-handed-over-than-received-for-the-message")
            ELSE /\ msg' = [msg EXCEPT !.handed = h]
                 /\ UNCHANGED <<vars, role, scripted, sentq, cur, rem, failed, limI, limSure, rdG, pingq, bad, skip>>
       [] e.ev = "MrEnd" ->
            IF ~msg.on THEN Same          \* reading again after the end reports the end again
            ELSE IF ~msg.done THEN Fail("clean-end-of-an-incomplete-message")
            ELSE IF ~msg.comp /\ msg.handed # msg.bytes THEN Fail("message-reported-complete-with-bytes-missing")
            ELSE IF msg.sure /\ msg.lim >= 0 /\ msg.handed > msg.lim - 1 THEN Fail("message-beyond-the-limit-reported-complete")
            ELSE /\ msg' = NoMsg
                 /\ UNCHANGED <<vars, role, scripted, sentq, cur, rem, failed, limI, limSure, rdG, pingq, bad, skip>>
       [] e.ev = "LrLimitHit" ->
            IF msg.on /\ msg.sure /\ msg.lim >= 0 /\ msg.handed < msg.lim THEN Fail("read-limit-error-before-the-limit")
            ELSE Same
       [] OTHER -> Same
TNext == Step
HW == TLCSet(1, IF TLCGet(1) < i THEN i ELSE TLCGet(1))
Accepted == TLCGet(1) = Len(Log) + 1 /\ TLCGet(2) = 0
=============================================================================
