----------------------------- MODULE TraceRefine -----------------------------
(* Refinement check of recorded executions against WSConn ITSELF: hook events of real        *)
(* executions of the scenario WSConn.quick.cfg model-checks (one streaming writer, one Ping, *)
(* one Read, one Close, a peer that may answer the ping, close, and echo) are replayed       *)
(* through WSConn's own actions -- the actions TLC explores exhaustively -- one action per   *)
(* event, with the few steps the code takes without a hook taken silently.  A trace is       *)
(* accepted iff it is (a prefix of) a behaviour of WSConn; every invariant of the            *)
(* configuration is evaluated in every state on the way.  Where TraceConn restates the rules *)
(* at hook grain for arbitrary executions, this module binds the model-checked specification *)
(* to the code directly, for the executions the model covers.                                *)
(* Goroutines are mapped to processes by the "Actor" events of the driver (refine.go).       *)
EXTENDS WSConn, Json, IOUtils

Log == ndJsonDeserialize(IOEnv.TRACE_FILE)
OpClose == 8  OpPing == 9  OpPong == 10     \* RFC 6455 5.2 (WSBase)
TraceInqBound == 8                          \* replaces WSConn!InqBound in the trace configurations

VARIABLES l,      \* next line of the trace
          gm,     \* goroutine id -> process
          sil,    \* silent steps since the last consumed event
          win,    \* the process between ClosedPre and ClosedPost whose flip of the closed flag has not been placed yet ("none")
          rel,    \* processes that have logged CloseExit and not yet released closeMu (the deferred Unlock follows the log line)
          cpost,  \* ClosedPost has been logged on this connection
          late,   \* goroutines whose current lock wait began after ClosedPost (rule R3: only these must see the connection closed)
          skip,   \* the rest of this connection is not replayed (see R3Reorder)
          nskip,  \* connections given up that way (reported)
          pend    \* the step of K that runs under closeMu (casClosing, the end of waitGoroutines) whose line has been read but which has
                  \* not been placed yet: the line is written INSIDE the critical section, closeMu is held from before it until K's
                  \* next line, and WSConn's one atomic step may lie anywhere in that interval ("none" = nothing pending)
tvars == <<l, gm, sil, win, rel, cpost, late, skip, nskip, pend>>

e == Log[l]
Proc(g) == IF g \in DOMAIN gm THEN gm[g] ELSE "none"
(* the asynchronous closer is a goroutine the library starts itself: the first unmapped goroutine that enters close() while the *)
(* model's closer is waiting to start is it                                                                                      *)
IsAC == e.g \notin DOMAIN gm /\ e.ev = "CloseEnter" /\ AC \in Procs /\ pc[AC] \in {"ac_cl0", "ac_clA"}
q == IF IsAC THEN AC ELSE Proc(e.g)
Stutter == UNCHANGED vars
(* the CloseRead goroutine reads in two places: inside Reader (labels c...) and, after a data message made it start the close   *)
(* handshake, inside waitCloseHandshake (labels d...)                                                                            *)
DLabels == {"d_waitlock", "d_hdr_in", "d_pongsig", "d_rdunlock"}
           \cup { "dpong" \o x : x \in {"_wflock", "_arm", "_hdr", "_pay", "_disarm", "_wfunlock"} }
           \cup { "decho" \o x : x \in {"_wflock", "_arm", "_hdr", "_pay", "_disarm", "_wfunlock"} }
           \cup { y \o x : y \in {"dx", "dxf"}, x \in {"_cl0", "_clA", "_cl1", "_cl2", "_clZ"} }
Pfx(x) == IF x = R THEN "r" ELSE IF x = K THEN "k" ELSE IF pc[CR] \in DLabels THEN "d" ELSE "c"
Readers == {R, K, CR} \cap Procs                       \* the processes that run the read loop
RoleStep(x) == IF x = R THEN Reader ELSE IF x = K THEN Closer ELSE CloseReader
OnData(x) == IF x = CR /\ Pfx(CR) = "c" THEN "c_rdunlockD" ELSE Pfx(x) \o "_hdr_in"

(* the frame paths of the processes: <<process, stage, label after the frame>> *)
FCAll == { <<w, "w", "w_after">> : w \in Writers } \cup
      { <<P, "p", "p_wait">>, <<R, "rpong", "r_hdr_in">>, <<R, "recho", "rx_cl0">>,
        <<K, "k1", "k_waitlock">>, <<K, "kpong", "k_hdr_in">>, <<K, "kecho", "kx_cl0">>,
        <<CR, "cpong", "c_hdr_in">>, <<CR, "cecho", "cx_cl0">>, <<CR, "c1", "d_waitlock">>, <<CR, "dpong", "d_hdr_in">>, <<CR, "decho", "dx_cl0">> }
FC == { t \in FCAll : t[1] \in Procs }
At(x, suffix) == { t \in FC : t[1] = x /\ pc[x] = t[2] \o suffix }
(* close() bodies: <<process, stage, label after, readMu held>> *)
CCAll == { <<AC, "ac", "ac_done", FALSE>>, <<K, "k", "k_wg", FALSE>>, <<R, "rx", "r_rdunlock", TRUE>>, <<R, "rxf", "r_rdunlock", FALSE>>,
        <<K, "kx", "k_rdunlock", TRUE>>, <<K, "kxf", "k_rdunlock", FALSE>>,
        <<N, "n", "n_wg", FALSE>>, <<N, "nl", "nl_wg", FALSE>>,        \* CloseNow: close() whether it won casClosing or not
        <<P, "pc", "p_fin", FALSE>>,                                    \* Ping whose context expired while it waited for the pong
        <<CR, "c", "c_done", FALSE>>, <<CR, "cx", "c_rdunlock", TRUE>>, <<CR, "cxf", "c_rdunlock", FALSE>>,
        <<CR, "dx", "d_rdunlock", TRUE>>, <<CR, "dxf", "d_rdunlock", FALSE>> }
CC == { t \in CCAll : t[1] \in Procs }
Closers == {R, K, AC, N, P, CR} \cap Procs                                             \* the processes that run close()
CasProcs == {K, N, CR} \cap Procs                                                   \* ... and casClosing / waitGoroutines
InClose(x, suffix) == { t \in CC : t[1] = x /\ pc[x] = t[2] \o suffix }

InitW == Init     \* WSConn's initial state, re-established at every TraceReset
ResetConn ==
  /\ closed' = FALSE /\ closing' = FALSE /\ sentClose' = FALSE
  /\ lk' = [x \in Locks |-> "free"] /\ out' = <<>> /\ emitting' = "none" /\ inq' = <<>>
  /\ pc' = [x \in Procs |-> CASE x = K -> "k_cas" [] x = R -> (IF CR \in Procs THEN "r_done" ELSE "r_lock") [] x = P -> "p_reg" [] x = AC -> "ac_idle" [] x = N -> "n_cas" [] x = CR -> "c_lock" [] OTHER -> "w_msglock"]
  /\ pingActive' = FALSE /\ pongSig' = FALSE /\ peerDid' = {} /\ ret' = [x \in Procs |-> "none"]
  /\ tl' = "running" /\ wframe' = [w \in Writers |-> 1] /\ armedW' = "none" /\ cancelled' = {} /\ fired' = "none"

OpCode(kind) == CASE kind = "data" -> 99 [] kind = "ping" -> OpPing [] kind = "pong" -> OpPong [] OTHER -> OpClose

RdUnlock(x) == /\ pc[x] = Pfx(x) \o "_rdunlock"
               /\ RoleStep(x)
               /\ pc'[x] = IF x = R THEN "r_done" ELSE IF x = K THEN "k_cl0pre" ELSE "c_cl0"

Mapped ==
  CASE e.ev = "TraceReset" -> ResetConn
    \* goroutines that are none of the four actors (the harness ending the run with CloseNow): not part of the scenario
    [] q = "none" /\ e.ev \notin {"PeerSent", "TLExit", "CtxCancel"} -> Stutter
    \* ---------------- channel mutexes ----------------
    [] e.ev = "LockOK" /\ e.l = "wf" -> \E t \in At(q, "_wflock") : FrameLock(q, t[2], t[3]) /\ pc'[q] = t[2] \o "_arm"
    [] e.ev \in {"LockFailClosed", "LockAcqSawClosed"} /\ e.l = "wf" -> \E t \in At(q, "_wflock") : FrameLock(q, t[2], t[3]) /\ pc'[q] = t[3]
    \* the caller's context was done while it waited for a lock: the call fails and an asynchronous closer is started (TryLock, third
    \* case); msgWriter.writeMu is not a lock of the model (only its owner ever takes it): its failure is the failure of the frame
    [] e.ev = "LockFailCtx" /\ e.l \in {"wf", "wmu"} /\ q \in CtxProcs ->
         \* (Writer.Close on a connection that was closed after the first frame: the model's writer does not start another frame)
         IF e.l = "wmu" /\ closed /\ pc[q] = "w_after" THEN Stutter
         ELSE \E t \in At(q, "_wflock") : FrameLock(q, t[2], t[3]) /\ pc'[q] = t[3]
    [] e.ev = "LockFailCtx" /\ e.l = "msg" /\ q \in CtxProcs -> WMsgLock(q) /\ pc'[q] = "w_done"
    [] e.ev = "LockOK" /\ e.l = "msg" -> WMsgLock(q) /\ pc'[q] = "w_wflock"
    [] e.ev \in {"LockFailClosed", "LockAcqSawClosed"} /\ e.l = "msg" -> WMsgLock(q) /\ pc'[q] = "w_done"
    [] e.ev = "LockOK" /\ e.l = "rd" -> IF q = R THEN RLock /\ pc'[R] = "r_hdr_in"
                                        ELSE IF q = CR THEN CloseReader /\ pc[CR] \in {"c_lock", "d_waitlock"} /\ pc'[CR] = (IF pc[CR] = "c_lock" THEN "c_hdr_in" ELSE "d_hdr_in")
                                        ELSE WaitLock(K, "k_waitlock", "k_hdr_in", "k_cl0pre") /\ pc'[K] = "k_hdr_in"
    [] e.ev \in {"LockFailClosed", "LockAcqSawClosed", "LockFailCtx"} /\ e.l = "rd" ->
         IF q = R THEN RLock /\ pc'[R] = "r_done"
         ELSE IF q = CR THEN CloseReader /\ pc[CR] \in {"c_lock", "d_waitlock"} /\ pc'[CR] = "c_cl0"
         ELSE WaitLock(K, "k_waitlock", "k_hdr_in", "k_cl0pre") /\ pc'[K] = "k_cl0pre"
    [] e.ev = "UnlockPre" /\ e.l = "wf" -> IF At(q, "_wfunlock") # {} THEN \E t \in At(q, "_wfunlock") : FrameUnlock(q, t[2], t[3]) ELSE Stutter
    [] e.ev = "UnlockPre" /\ e.l = "msg" -> IF q \in Writers /\ pc[q] = "w_after" THEN WNext(q) /\ pc'[q] = "w_done" ELSE Stutter
    [] e.ev = "UnlockPre" /\ e.l = "rd" ->
         IF q \in Readers /\ pc[q] = Pfx(q) \o "_rdunlock" THEN RdUnlock(q)
         ELSE IF q = CR /\ pc[CR] = "c_rdunlockD" THEN CloseReader /\ pc'[CR] = "c_cas"     \* Reader returned a data message to the CloseRead goroutine
         ELSE IF q \in Readers /\ pc[q] = Pfx(q) \o "x_cl0"          \* closeWith(true) could not get closeMu: readMu is released first
              THEN RoleStep(q) /\ pc'[q] = Pfx(q) \o "xf_cl0"
         ELSE Stutter
    \* ---------------- writeFrame ----------------
    \* the line is written after the select that armed the frame: the arm itself lies between LockOK and this line and may have been
    \* placed already (silent step EarlyArm)
    [] e.ev = "WfArm" -> IF At(q, "_arm") # {} THEN \E t \in At(q, "_arm") : FrameArm(q, t[2]) /\ pc'[q] = t[2] \o "_hdr"
                         ELSE At(q, "_hdr") # {} /\ Stutter
    [] e.ev = "WfArmFail" -> \E t \in At(q, "_arm") : FrameArm(q, t[2]) /\ pc'[q] = t[2] \o "_wfunlock"
    [] e.ev = "WfRet" -> IF e.b # 0 /\ At(q, "_arm") # {}          \* refused: a Close frame has been sent (no arm, no header)
                         THEN \E t \in At(q, "_arm") : FrameArm(q, t[2]) /\ pc'[q] = t[2] \o "_wfunlock"
                         \* the write failed after the header because the connection was closed under it: the model's frame ends torn
                         ELSE IF e.b # 0 /\ At(q, "_pay") # {} THEN \E t \in At(q, "_pay") : FramePay(q, t[2])
                         ELSE IF e.b # 0 /\ At(q, "_disarm") # {} THEN \E t \in At(q, "_disarm") : FrameDisarm(q, t[2])
                         ELSE Stutter
    [] e.ev = "WfHeader" -> \E t \in At(q, "_hdr") : FrameHdr(q, t[2]) /\ (IF Kind(q, t[2]) = "data" THEN e.a \in {0, 1, 2} ELSE e.a = OpCode(Kind(q, t[2])))
    [] e.ev = "WfPayload" -> \E t \in At(q, "_pay") : FramePay(q, t[2])
    \* handing the context back succeeded / found the connection closed; like WfArm the line follows the select (EarlyDisarm)
    [] e.ev = "WfDisarm" -> IF At(q, "_disarm") # {} THEN \E t \in At(q, "_disarm") : FrameDisarm(q, t[2]) /\ ret' = ret /\ tl = "running"
                            ELSE At(q, "_wfunlock") # {} /\ Stutter
    [] e.ev = "WfDisarmClosed" -> \E t \in At(q, "_disarm") : FrameDisarm(q, t[2]) /\ (q \in CtxProcs => ret'[q] = "failed")
    \* ---------------- Ping ----------------
    [] e.ev = "PingReg" -> PReg
    [] e.ev = "PingResPong" -> PWait /\ ret'[P] = "nil"
    [] e.ev = "PingResClosed" -> PWait /\ ret'[P] = "errClosed"
    [] e.ev = "PingResCtx" -> PWaitCtx
    [] e.ev = "PingUnreg" -> IF pc[P] = "p_wait" THEN PWait          \* the ping frame could not be written: Ping returns that error
                             ELSE IF pc[P] = "p_fin" THEN PFin ELSE Stutter
    \* ---------------- the read loop (Read, or the loop inside Close) ----------------
    \* ReadFrame takes a whole frame; a control frame has been read when its payload has (CtlPayload) -- the connection may be
    \* closed under the payload read, and the reader then leaves as if it had been woken before the frame (UnlockPre rd, silent step)
    [] e.ev = "RdHeader" /\ q \in Readers ->
         /\ inq # <<>> /\ pc[q] = Pfx(q) \o "_hdr_in"
         /\ Head(inq) = (CASE e.a = OpPing -> "ping" [] e.a = OpPong -> "pong" [] e.a = OpClose -> "close" [] OTHER -> "data")
         /\ IF e.a \in {OpPing, OpPong, OpClose} THEN Stutter ELSE ReadFrame(q, Pfx(q), OnData(q))
    [] e.ev = "CtlPayload" /\ q \in Readers ->
         /\ inq # <<>>
         /\ Head(inq) = (CASE e.a = OpPing -> "ping" [] e.a = OpPong -> "pong" [] OTHER -> "close")
         /\ ReadFrame(q, Pfx(q), OnData(q))
    [] e.ev = "PongRcvd" -> IF q \in Readers /\ pc[q] = Pfx(q) \o "_pongsig" THEN PongSignal(q, Pfx(q)) ELSE Stutter
    [] e.ev = "RdHeaderErr" /\ q \in Readers ->
         IF pc[q] # Pfx(q) \o "_hdr_in" THEN Stutter
         ELSE RoleStep(q) /\ pc'[q] = Pfx(q) \o "_rdunlock" /\ closed
    \* ---------------- Close / close() ----------------
    [] e.ev \in {"CasClosingOK", "CasClosingFail"} -> q \in CasProcs /\ pc[q] = (IF q = K THEN "k_cas" ELSE IF q = N THEN "n_cas" ELSE "c_cas") /\ Stutter   \* placed by the silent step Pending
    [] e.ev = "CloseEnter" /\ q \in Closers ->
         IF InClose(q, "_cl0") = {} THEN InClose(q, "_clA") # {} /\ Stutter      \* closeMu was taken before this line (EarlyAcquire)
         ELSE \E t \in InClose(q, "_cl0") :
            IF t[4] THEN RoleStep(q) /\ pc'[q] = t[2] \o "_clA"
            ELSE IF q = AC THEN AsyncCloser /\ pc'[AC] = "ac_clA"
            ELSE CmAcquire(q, t[2])
    \* the timeoutLoop closing the connection because the 5 s context of Close's read loop is done: its close() is collapsed in
    \* the model (T5); the flag flips between its ClosedPre and ClosedPost like anybody's
    [] q = "TL" /\ e.ev = "ClosedPre" -> ~closed /\ Stutter
    [] q = "TL" /\ e.ev = "ClosedPost" -> IF win = "TL" THEN (T5(K, "k") \/ TLFireW \/ (CR \in Procs /\ T5(CR, "d"))) ELSE Stutter
    [] q = "TL" /\ e.ev # "TLExit" -> Stutter
    [] e.ev = "CloseAlready" /\ q \in Closers -> closed /\ \E t \in InClose(q, "_clA") : CmFlip(q, t[2])
    \* rule R3: close(c.closed) happens somewhere between the lines ClosedPre and ClosedPost; the flip is placed by a silent step
    [] e.ev = "ClosedPre" /\ q \in Closers -> ~closed /\ InClose(q, "_clA") # {} /\ Stutter
    [] e.ev = "ClosedPost" /\ q \in Closers -> IF win = q THEN \E t \in InClose(q, "_clA") : CmFlip(q, t[2]) ELSE Stutter
    [] e.ev = "ForceLock" /\ e.l = "wf" /\ q \in Closers -> \E t \in InClose(q, "_cl1") : CmForceWf(q, t[2])
    [] e.ev = "ForceLock" /\ e.l = "rd" /\ q \in Closers -> \E t \in InClose(q, "_cl2") : CmForceRd(q, t[2], FALSE)
    [] e.ev = "CloseExit" /\ q \in Closers -> InClose(q, "_clZ") # {} /\ Stutter       \* closeMu is released after this line: silent
    \* waitGoroutines' last step, logged while it holds closeMu (so that "closeMu was free" is observed where it is true)
    \* what Close / CloseNow really returned against what the model says they return: the call that won casClosing never reports
    \* net.ErrClosed (class 1), every other call reports exactly that
    [] e.ev \in {"CloseRet", "CloseNowRet"} /\ q \in {K, N} ->
         /\ ret[q] \in {"returned", "errClosed"} /\ (ret[q] = "errClosed") = (e.b = 1) /\ Stutter
    [] e.ev = "WgCloseMu" /\ q \in CasProcs -> Stutter                                   \* placed by the silent step Pending
    [] e.ev = "TLExit" -> "TL" \notin rel /\ (IF tl = "exited" THEN Stutter ELSE TLExit)   \* (a timeoutLoop that fired leaves by TLCloseDone)
    \* the application cancels the context of a call (announced by the harness before it calls cancel())
    [] e.ev = "CtxCancel" -> CtxCancel(e.s)
    \* ---------------- the peer (announced by the harness before the bytes are written) ----------------
    [] e.ev = "PeerSent" /\ e.a = OpPong -> SawOut("ping") /\ PeerAct("pong", "pong")
    [] e.ev = "PeerSent" /\ e.a \in {1, 2} -> PeerAct("data", "data")
    [] e.ev = "PeerSent" /\ e.a = OpPing -> PeerAct("ping", "ping")
    [] e.ev = "PeerSent" /\ e.a = OpClose -> PeerAct("close", "close") \/ (SawOut("close") /\ PeerAct("echo", "close"))
    [] OTHER -> Stutter

(* Rule R3 again: a lock wait that re-checked the closed flag BEFORE the flag was raised may log its LockOK AFTER other goroutines  *)
(* have logged that they saw the connection closed.  Replaying the log in order, WSConn (whose acquire-and-recheck is one atomic   *)
(* step) cannot take that step any more; the execution is a behaviour of WSConn with that one step commuted to the left.  Such a   *)
(* connection is replayed up to this point and the rest is skipped (counted); a LockOK of a LATE goroutine is never excused.       *)
R3Reorder == e.ev = "LockOK" /\ closed /\ e.g \notin late /\ e.l \in {"wf", "msg", "rd"}

Consume == /\ l <= Len(Log) /\ l' = l + 1 /\ sil' = 0
           /\ cpost' = IF e.ev = "TraceReset" THEN FALSE ELSE (cpost \/ e.ev = "ClosedPost")
           /\ late' = IF e.ev = "TraceReset" THEN {} ELSE IF e.ev = "LockBegin" THEN (IF cpost THEN late \cup {e.g} ELSE late \ {e.g}) ELSE late
           /\ skip' = IF e.ev = "TraceReset" THEN FALSE ELSE (skip \/ R3Reorder \/ e.ev = "Aborted")   \* Aborted: the harness gave up on the scenario
           /\ nskip' = IF e.ev # "TraceReset" /\ ~skip /\ R3Reorder THEN nskip + 1 ELSE nskip
           /\ win' = IF e.ev = "TraceReset" THEN "none" ELSE IF e.ev = "ClosedPre" /\ q \in Closers \cup {"TL"} THEN q ELSE IF e.ev = "ClosedPost" /\ win = q THEN "none" ELSE win
           /\ rel' = IF e.ev = "TraceReset" THEN {} ELSE IF e.ev \in {"CloseExit", "CloseAlready"} /\ q \in Closers THEN rel \cup {q}
                     ELSE IF e.ev = "CloseExit" /\ q = "TL" /\ tl = "closing" THEN rel \cup {"TL"} ELSE rel
           /\ gm' = IF e.ev = "TraceReset" THEN <<>>
                    ELSE IF e.ev = "Actor" THEN [x \in DOMAIN gm \cup {e.g} |-> IF x = e.g THEN e.s ELSE gm[x]]
                    ELSE IF IsAC THEN [x \in DOMAIN gm \cup {e.g} |-> IF x = e.g THEN AC ELSE gm[x]]
                    ELSE IF e.ev = "CrStart" THEN [x \in DOMAIN gm \cup {e.g} |-> IF x = e.g THEN CR ELSE gm[x]]
                    ELSE IF e.ev = "TLStart" THEN [x \in DOMAIN gm \cup {e.g} |-> IF x = e.g THEN "TL" ELSE gm[x]] ELSE gm
           /\ (q \in CasProcs /\ ~skip /\ e.ev # "TraceReset") => pend[q] = "none"        \* a pending step comes before its process's next line
           /\ pend' = IF e.ev = "TraceReset" THEN [x \in CasProcs |-> "none"]
                      ELSE IF skip \/ R3Reorder \/ q \notin CasProcs THEN pend
                      ELSE IF e.ev \in {"CasClosingOK", "CasClosingFail"} THEN [pend EXCEPT ![q] = e.ev]
                      ELSE IF e.ev = "WgCloseMu" /\ pc[q] \in {"k_wg", "kl_wg", "n_wg", "nl_wg"} THEN [pend EXCEPT ![q] = e.ev] ELSE pend
           /\ IF (skip \/ R3Reorder) /\ e.ev # "TraceReset" THEN Stutter ELSE Mapped

NextIs(S) == l <= Len(Log) /\ Log[l].ev \in S
(* steps the code takes without a hook *)
PendingStep(x) ==
   CASE pend[x] = "CasClosingOK" -> IF x = K THEN Cas(K, "k_cas", "k1_wflock", "kl_wg") /\ pc'[K] = "k1_wflock"
                                    ELSE IF x = CR THEN CloseReader /\ pc[CR] = "c_cas" /\ pc'[CR] = "c1_wflock"
                                    ELSE CloseNower /\ pc[N] = "n_cas" /\ pc'[N] = "n_cl0"
     [] pend[x] = "CasClosingFail" -> IF x = K THEN Cas(K, "k_cas", "k1_wflock", "kl_wg") /\ pc'[K] = "kl_wg"
                                      ELSE IF x = CR THEN CloseReader /\ pc[CR] = "c_cas" /\ pc'[CR] = "c_cl0"
                                      ELSE CloseNower /\ pc[N] = "n_cas" /\ pc'[N] = "nl_cl0"
     [] pend[x] = "WgCloseMu" -> IF x = K THEN (IF pc[K] = "k_wg" THEN WaitGor(K, "k_wg", "k_done", "returned") ELSE WaitGor(K, "kl_wg", "k_done", "errClosed"))
                                 ELSE (IF pc[N] = "n_wg" THEN WaitGor(N, "n_wg", "n_done", "returned") ELSE WaitGor(N, "nl_wg", "n_done", "errClosed"))
     [] OTHER -> FALSE
SilentStep ==
          /\ \/ KPre /\ UNCHANGED <<win, rel>>
             \/ win \notin {"none", "TL"} /\ win' = "none" /\ UNCHANGED rel /\ \E t \in InClose(win, "_clA") : CmFlip(win, t[2])
             \/ win = "TL" /\ win' = "none" /\ UNCHANGED rel /\ (T5(K, "k") \/ TLFireW \/ (CR \in Procs /\ T5(CR, "d")))
             \/ \E x \in rel \ {"TL"} : rel' = rel \ {x} /\ UNCHANGED win /\ \E t \in InClose(x, "_clZ") : CmRelease(x, t[2], t[3])
             \/ "TL" \in rel /\ rel' = rel \ {"TL"} /\ UNCHANGED win /\ TLCloseDone       \* the timeoutLoop's close() is through: closeMu released
             \/ UNCHANGED <<win, rel>> /\ closed /\ \E t \in FC : pc[t[1]] = t[2] \o "_disarm" /\ FrameDisarm(t[1], t[2])   \* rest of a torn frame
             \* EarlyArm: a goroutine that holds the frame lock armed its frame before the events that precede its WfArm line
             \/ UNCHANGED <<win, rel>> /\ NextIs({"ClosedPre", "ClosedPost", "TLExit"}) /\ \E t \in FC : pc[t[1]] = t[2] \o "_arm" /\ FrameArm(t[1], t[2]) /\ pc'[t[1]] = t[2] \o "_hdr"
             \/ UNCHANGED <<win, rel>> /\ NextIs({"ClosedPre", "ClosedPost", "TLExit"}) /\ \E t \in FC : pc[t[1]] = t[2] \o "_disarm" /\ tl = "running" /\ FrameDisarm(t[1], t[2]) /\ ret' = ret
             \* EarlyAcquire: the CloseEnter line follows closeMu.Lock(); a reader whose TryLock(closeMu) failed in between has its
             \* readMu.unlock line before it
             \/ /\ UNCHANGED <<win, rel>> /\ NextIs({"UnlockPre"}) /\ (\E y \in Readers : pc[y] = Pfx(y) \o "x_cl0")
                /\ \E x \in Closers : \E t \in InClose(x, "_cl0") : ~t[4] /\ CmAcquire(x, t[2])
             \* closeWith(true) found closeMu taken -- by a casClosing or a waitGoroutines that has long finished when the line of the
             \* readMu.unlock that follows is written: the TryLock is placed inside that window
             \/ /\ UNCHANGED <<win, rel>>
                /\ \E x \in Readers : pc[x] = Pfx(x) \o "x_cl0" /\ RoleStep(x) /\ pc'[x] = Pfx(x) \o "xf_cl0"
             \* a reader that found the connection closed at one of readFrameHeader's two selects leaves without a line of its own:
             \* placed right before the line of its deferred readMu.unlock
             \/ /\ UNCHANGED <<win, rel>> /\ l <= Len(Log) /\ e.ev = "UnlockPre" /\ e.l = "rd" /\ q \in Readers /\ closed
                /\ pc[q] = Pfx(q) \o "_hdr_in" /\ RoleStep(q) /\ pc'[q] = Pfx(q) \o "_rdunlock"
             \/ UNCHANGED <<win, rel>> /\ \E w \in Writers : pc[w] = "w_after" /\ wframe[w] < FramesOf[w] /\ ~closed /\ WNext(w)   \* Writer.Close after Writer.Write
             \/ UNCHANGED <<win, rel>> /\ \E x \in Closers : \E t \in InClose(x, "_cl1") : ~Client /\ CmForceWf(x, t[2])             \* a server's close() takes no frame lock
             \/ UNCHANGED <<win, rel>> /\ \E x \in Readers : \E t \in InClose(x, "_cl2") : t[4] /\ CmForceRd(x, t[2], TRUE)          \* closeWith(true): readMu is already held

Silent == /\ ~skip /\ sil < 4 /\ sil' = sil + 1 /\ UNCHANGED <<l, gm, cpost, late, skip, nskip>>
          /\ \/ \E x \in CasProcs : pend[x] # "none" /\ pend' = [pend EXCEPT ![x] = "none"] /\ UNCHANGED <<win, rel>> /\ PendingStep(x)
             \/ UNCHANGED pend /\ SilentStep

TInit == Init /\ l = 1 /\ gm = <<>> /\ sil = 0 /\ win = "none" /\ rel = {} /\ cpost = FALSE /\ late = {} /\ skip = FALSE /\ nskip = 0 /\ pend = [x \in CasProcs |-> "none"] /\ TLCSet(1, 1) /\ TLCSet(3, 0)
TNext == Consume \/ Silent
HW == TLCSet(1, IF TLCGet(1) < l THEN l ELSE TLCGet(1)) /\ (l = Len(Log) + 1 => TLCSet(3, nskip))
Accepted == IF TLCGet(1) = Len(Log) + 1 THEN PrintT(<<"R3-SKIPPED", TLCGet(3)>>)
            ELSE PrintT(<<"REJECTED", TLCGet(1), "not-a-behaviour-of-WSConn", Log[TLCGet(1)]>>) /\ FALSE
=============================================================================
