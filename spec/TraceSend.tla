------------------------------ MODULE TraceSend ------------------------------
(* Trace validation (binding C) of the OUTBOUND message pipeline (write.go: msgWriter.reset / *)
(* Write / Close over writeFrame) against the sender rules of WSSend / WSPair:               *)
(*   - a message is started, written to and closed by the holder of the message lock, each   *)
(*     chunk under the writer lock (C05);                                                    *)
(*   - whether a message is compressed is decided ONCE, by its first chunk, and only on a    *)
(*     connection that negotiated permessage-deflate; RSV1 is set exactly on the first frame *)
(*     of a compressed message (C02, RFC 7692 6);                                            *)
(*   - the first frame of a message carries the opcode of the type the caller asked for,     *)
(*     every further frame is a continuation (C02);                                          *)
(*   - every frame's payload on the wire has the length its header declares, and for an      *)
(*     uncompressed message the payload bytes of its frames add up to exactly the bytes the  *)
(*     caller wrote: nothing lost, nothing duplicated (C01);                                 *)
(*   - a Close frame carries the status code the goroutine writing it was asked to send --   *)
(*     Close's own, or the peer's being echoed, never another closer's (C06).                *)
(* Input: the same per-connection hook trace TraceConn reads.  One event = one step; the     *)
(* whole state is one record so that each rule names only what it changes.                   *)
EXTENDS WSFrame, TLC, Json, IOUtils

Log == ndJsonDeserialize(IOEnv.TRACE_FILE)

VARIABLES i, t, bad, skip
vars == <<i, t, bad, skip>>

NoMsg == [on |-> FALSE, g |-> 0, typ |-> 0, fl |-> -1, written |-> 0, framed |-> 0, nf |-> 0, closedW |-> FALSE, broken |-> FALSE]
Fresh == [flate |-> FALSE, lkmsg |-> 0, lkwmu |-> 0, mw |-> NoMsg,
          wc |-> [x \in {} |-> 0],     \* goroutine -> status code of the close it is writing (WcBegin)
          fr |-> [on |-> FALSE, g |-> 0, data |-> FALSE, len |-> 0]]     \* the frame whose header was written last
Init == i = 1 /\ t = Fresh /\ bad = {} /\ skip = FALSE /\ TLCSet(1, 1) /\ TLCSet(2, 0)

e == Log[i]
Same == UNCHANGED <<t, bad, skip>>
Set(nt) == t' = nt /\ UNCHANGED <<bad, skip>>
Fail(why) == /\ bad' = bad \cup {why} /\ skip' = TRUE /\ TLCSet(2, TLCGet(2) + 1) /\ PrintT(<<"REJECTED", i, why, e>>) /\ UNCHANGED t

Bit(x, k) == (x \div k) % 2 = 1
Owner(l) == IF l = "msg" THEN t.lkmsg ELSE t.lkwmu
SetOwner(l, g) == IF l = "msg" THEN [t EXCEPT !.lkmsg = g] ELSE [t EXCEPT !.lkwmu = g]

Step ==
  /\ i <= Len(Log) /\ i' = i + 1
  /\ CASE skip /\ e.ev # "TraceReset" -> Same
       [] e.ev = "TraceReset" -> t' = Fresh /\ skip' = FALSE /\ UNCHANGED bad
       [] e.ev = "ConnNew" -> Set([t EXCEPT !.flate = (e.b # 0)])
       \* ---- the two locks of the message writer (rules R2/R3 as in TraceConn; exclusion itself is TraceConn's business) ----
       [] e.ev \in {"LockOK", "LockAcqSawClosed", "ForceLock"} /\ e.l \in {"msg", "wmu"} -> Set(SetOwner(e.l, e.g))
       [] e.ev = "UnlockPre" /\ e.l = "wmu" -> Set(SetOwner("wmu", 0))
       [] e.ev = "UnlockPre" /\ e.l = "msg" ->
            \* the message lock is given back: a message that was closed with every frame written must be on the wire in full
            IF t.mw.on /\ t.mw.closedW /\ ~t.mw.broken /\ t.mw.fl # 1 /\ t.mw.framed # t.mw.written
            THEN Fail("message-bytes-on-the-wire-differ-from-the-bytes-written")
            ELSE Set([SetOwner("msg", 0) EXCEPT !.mw = NoMsg])
       \* ---- msgWriter ----
       [] e.ev = "MwReset" ->
            IF t.lkmsg # e.g THEN Fail("message-started-without-the-message-lock")
            ELSE Set([t EXCEPT !.mw = [NoMsg EXCEPT !.on = TRUE, !.g = e.g, !.typ = e.a]])
       [] e.ev = "MwWrite" ->
            IF ~t.mw.on THEN Fail("chunk-written-without-an-open-message")
            ELSE IF t.lkwmu # e.g THEN Fail("writer-step-without-the-writer-lock")
            ELSE IF e.b = 1 /\ ~t.flate THEN Fail("message-compressed-without-negotiated-deflate")
            ELSE IF t.mw.fl # -1 /\ t.mw.fl # e.b THEN Fail("compression-decision-changed-inside-a-message")
            ELSE Set([t EXCEPT !.mw.fl = e.b, !.mw.written = @ + e.a])
       [] e.ev = "MwClose" ->
            IF ~t.mw.on THEN Fail("message-closed-without-an-open-message")
            ELSE IF t.lkwmu # e.g THEN Fail("writer-step-without-the-writer-lock")
            ELSE Set([t EXCEPT !.mw.closedW = TRUE])
       \* ---- frames ----
       [] e.ev = "WfHeader" ->
            LET data == e.a \in DataOps
                rsv1 == Bit(e.b, 2)
                first == t.mw.nf = 0
                fr == [on |-> TRUE, g |-> e.g, data |-> data, len |-> e.d]
            IN IF ~data THEN Set([t EXCEPT !.fr = fr])
               ELSE IF ~t.mw.on \/ t.lkmsg # t.mw.g THEN Set([t EXCEPT !.fr = fr])     \* judged by TraceConn (message ownership)
               ELSE IF first /\ e.a # t.mw.typ THEN Fail("first-frame-opcode-is-not-the-message-type")
               ELSE IF ~first /\ e.a # OpCont THEN Fail("later-frame-of-a-message-is-not-a-continuation")
               ELSE IF rsv1 # (first /\ t.mw.fl = 1) THEN Fail("rsv1-does-not-match-the-compression-decision")
               ELSE Set([t EXCEPT !.fr = fr, !.mw.nf = @ + 1])
       [] e.ev = "WfPayload" ->
            IF ~t.fr.on \/ t.fr.g # e.g THEN Same
            ELSE IF e.a # t.fr.len THEN Fail("frame-payload-differs-from-the-declared-length")
            ELSE Set([t EXCEPT !.fr.on = FALSE, !.mw.framed = IF t.fr.data /\ t.mw.on THEN @ + e.a ELSE @])
       \* ---- close frames: what goes on the wire is what this goroutine's writeClose was asked to send (C06) ----
       [] e.ev = "WcBegin" -> Set([t EXCEPT !.wc = [x \in DOMAIN t.wc \cup {e.g} |-> IF x = e.g THEN e.a ELSE t.wc[x]]])
       [] e.ev = "WfCtl" /\ e.a = OpClose ->
            IF e.g \notin DOMAIN t.wc THEN Fail("close-frame-written-without-a-close-request")
            ELSE IF t.wc[e.g] = 1005 /\ (e.b # -1 \/ e.d # 0) THEN Fail("close-frame-on-the-wire-differs-from-the-close-requested")
            ELSE IF t.wc[e.g] # 1005 /\ e.b # t.wc[e.g] THEN Fail("close-frame-on-the-wire-differs-from-the-close-requested")
            ELSE Same
       [] e.ev = "WfRet" ->
            \* a data frame that failed: the message is broken, its byte count is not judged any more
            IF e.b # 0 /\ e.a \in DataOps /\ t.mw.on THEN Set([t EXCEPT !.mw.broken = TRUE, !.fr.on = FALSE])
            ELSE Same
       [] OTHER -> Same
Next == Step
HW == TLCSet(1, IF TLCGet(1) < i THEN i ELSE TLCGet(1))
Accepted == TLCGet(1) = Len(Log) + 1 /\ TLCGet(2) = 0
=============================================================================
