------------------------------ MODULE TraceWire ------------------------------
(* Trace validation (binding C) of what an endpoint puts on the wire, as recorded by an     *)
(* independent raw peer until the transport ends: TLC decodes the raw header bytes with     *)
(* WSFrame!DecodeHeader and runs the sender grammar WSFrame!WireStep over them (C02, C16),  *)
(* checks the mask-key rule R8 and that Pongs echo the received Pings in order (C15).       *)
(* Input: NDJSON, one connection after another, each introduced by a WireReset line.        *)
EXTENDS WSFrame, TLC, Json, IOUtils

Log == ndJsonDeserialize(IOEnv.TRACE_FILE)

VARIABLES i, role, flate, ws, keys, pings, pongs, seen, dups, bad, skip
vars == <<i, role, flate, ws, keys, pings, pongs, seen, dups, bad, skip>>

Init == i = 1 /\ role = "server" /\ flate = FALSE /\ ws = W0 /\ keys = <<>> /\ pings = <<>> /\ pongs = 0 /\ seen = {} /\ dups = {}
        /\ bad = {} /\ skip = FALSE /\ TLCSet(1, 1) /\ TLCSet(2, 0)

e == Log[i]

Fail(why) == /\ bad' = bad \cup {why} /\ skip' = TRUE /\ TLCSet(2, TLCGet(2) + 1) /\ PrintT(<<"REJECTED", i, why, e>>) /\ UNCHANGED <<role, flate, ws, keys, pings, pongs, seen, dups>>

(* R8: among any four consecutive masked frames of a connection at least two keys differ *)
KeysOK(ks) == Len(ks) < 4 \/ \E a, b \in 1..4 : ks[a] # ks[b]

FrameStep ==
  LET d == DecodeHeader(e.hdr) IN
  IF ~d.ok \/ d.n # Len(e.hdr) THEN Fail("header-undecodable")
  ELSE IF d.big THEN Fail("length-beyond-2^31")
  ELSE LET h == d.h
           cl == IF h.op = OpClose
                 THEN [empty |-> h.len = 0, codeOK |-> h.len >= 2 /\ ValidWireCode(e.code) /\ h.len - 2 <= MaxCloseReason]
                 ELSE [empty |-> TRUE, codeOK |-> TRUE]
           r == WireStep(ws, h, d.minimal, cl, role, flate)
           ks == IF h.masked THEN SuffixCap(4, Append(keys, h.key)) ELSE keys
       IN IF ~r.ok THEN Fail(r.why)
          ELSE IF ~KeysOK(ks) THEN Fail("mask-key-not-refreshed")
          \* R8, second half: keys are fresh random values.  One chance repeat per connection is tolerated (p ~ n^2/2^33);
          \* a key seen three times, or two different keys each repeated, is not chance (p < 2^-40) but a recycled key source
          ELSE IF h.masked /\ h.key \in dups THEN Fail("mask-key-reused")
          ELSE IF h.masked /\ h.key \in seen /\ dups # {} THEN Fail("mask-key-reused")
          ELSE IF h.op = OpPong /\ (pongs >= Len(pings) \/ pings[pongs + 1] # e.pl) THEN Fail("pong-does-not-echo-next-ping")
          ELSE /\ ws' = r.st /\ keys' = ks
               /\ pongs' = IF h.op = OpPong THEN pongs + 1 ELSE pongs
               /\ seen' = IF h.masked THEN seen \cup {h.key} ELSE seen
               /\ dups' = IF h.masked /\ h.key \in seen THEN dups \cup {h.key} ELSE dups
               /\ UNCHANGED <<role, flate, pings, bad, skip>>

Step ==
  /\ i <= Len(Log) /\ i' = i + 1
  /\ CASE skip /\ e.ev # "WireReset" -> UNCHANGED <<role, flate, ws, keys, pings, pongs, seen, dups, bad, skip>>
       [] e.ev = "WireReset" -> /\ role' = e.role /\ flate' = e.flate /\ ws' = W0 /\ keys' = <<>>
                                /\ pings' = <<>> /\ pongs' = 0 /\ seen' = {} /\ dups' = {} /\ skip' = FALSE /\ UNCHANGED bad
       [] e.ev = "SentPing"  -> pings' = Append(pings, e.pl) /\ UNCHANGED <<role, flate, ws, keys, pongs, seen, dups, bad, skip>>
       [] e.ev = "Frame"     -> FrameStep
       [] OTHER              -> UNCHANGED <<role, flate, ws, keys, pings, pongs, seen, dups, bad, skip>>
Next == Step
HW == TLCSet(1, IF TLCGet(1) < i THEN i ELSE TLCGet(1))
(* a rejection is reported with the index and content of the offending line *)
Accepted == TLCGet(1) = Len(Log) + 1 /\ TLCGet(2) = 0
Report == TRUE
=============================================================================
