------------------------------- MODULE WSBase -------------------------------
(* Shared vocabulary of the nhooyr/websocket specification: opcodes, status   *)
(* code predicates (RFC 6455 7.4), length-encoding classes (5.2), helpers.    *)
EXTENDS Integers, Sequences, FiniteSets

OpCont  == 0
OpText  == 1
OpBin   == 2
OpClose == 8
OpPing  == 9
OpPong  == 10
DataOps    == {OpCont, OpText, OpBin}
ControlOps == {OpClose, OpPing, OpPong}
KnownOps   == DataOps \cup ControlOps
IsControl(op) == op >= 8

MaxControlPayload == 125
MaxCloseReason    == 123

(* Codes that may appear in a Close frame on the wire (RFC 6455 7.4.1/7.4.2, IANA registry  *)
(* up to 1014): 1004 reserved, 1005/1006/1015 must never be sent.                            *)
ValidWireCode(c) ==
  \/ c >= 1000 /\ c <= 1014 /\ c \notin {1004, 1005, 1006}
  \/ c >= 3000 /\ c <= 4999

(* What Close(code, reason) may put on the wire: a valid code with a reason of at most 123   *)
(* bytes; the no-status code 1005 stands for "empty Close body".                             *)
Sendable(c, rlen) == ValidWireCode(c) /\ rlen <= MaxCloseReason

(* Minimal length encoding class of a payload length (RFC 6455 5.2). *)
LenEnc(n) == IF n <= 125 THEN 7 ELSE IF n <= 65535 THEN 16 ELSE 64

Min2(a, b) == IF a < b THEN a ELSE b
Max2(a, b) == IF a > b THEN a ELSE b

(* The last w elements of s. *)
SuffixCap(w, s) == IF Len(s) <= w THEN s ELSE SubSeq(s, Len(s) - w + 1, Len(s))

RECURSIVE SumSeq(_)
SumSeq(s) == IF s = <<>> THEN 0 ELSE Head(s) + SumSeq(Tail(s))
=============================================================================
