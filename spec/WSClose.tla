------------------------------- MODULE WSClose -------------------------------
(* C09: the CloseRead goroutine receives a data message and closes the connection, against a *)
(* peer that echoes, stays silent or stalls in the middle of a frame.  Timers are separate    *)
(* actions, so "is this timer NEEDED" is asked by leaving its action out (constant Timers):   *)
(* "promptly" = liveness with no timer at all, "bounded" = liveness with the 5 s timers only. *)
(* Dev names the two behaviours the code had before its fix: commits.                         *)
EXTENDS Integers, Sequences, FiniteSets, TLC
CONSTANTS Dev,            \* subset of {"CloseReadSelfWait", "UnarmedDiscard"}
          Timers          \* subset of {"T5wait", "T15"} that are allowed to fire
VARIABLES pc, closed, closing, inq, peerMode, tlDone, crDone, crCtxDone, fired, stalled
vars == <<pc, closed, closing, inq, peerMode, tlDone, crDone, crCtxDone, fired, stalled>>
\* CR = CloseRead goroutine; it reads; a data frame makes it call Close(StatusPolicyViolation)
Init == /\ pc = "cr_read" /\ closed = FALSE /\ closing = FALSE /\ inq = <<>>
        /\ peerMode \in {"sendData", "sendDataThenStallMidFrame"}
        /\ tlDone = FALSE /\ crDone = FALSE /\ crCtxDone = FALSE /\ fired = {} /\ stalled = FALSE
PeerData == /\ peerMode \in {"sendData", "sendDataThenStallMidFrame"} /\ inq = <<>> /\ pc = "cr_read"
            /\ inq' = <<"data">> /\ UNCHANGED <<pc, closed, closing, peerMode, tlDone, crDone, crCtxDone, fired, stalled>>
CrGotData == /\ pc = "cr_read" /\ inq # <<>> /\ Head(inq) = "data" /\ inq' = Tail(inq)
             /\ pc' = "cr_cas" /\ UNCHANGED <<closed, closing, peerMode, tlDone, crDone, crCtxDone, fired, stalled>>
CrCas == pc = "cr_cas" /\ closing' = TRUE /\ pc' = "cr_writeclose"
         /\ UNCHANGED <<closed, inq, peerMode, tlDone, crDone, crCtxDone, fired, stalled>>
CrWriteClose == pc = "cr_writeclose" /\ pc' = "cr_wait"
         /\ UNCHANGED <<closed, closing, inq, peerMode, tlDone, crDone, crCtxDone, fired, stalled>>
\* waitCloseHandshake: peer echoes (then done), or starts a frame and stalls mid-payload, or stays silent (T5wait)
PeerEcho == /\ pc = "cr_wait" /\ peerMode = "sendData" /\ inq = <<>> /\ ~stalled
            /\ inq' = <<"close">> /\ UNCHANGED <<pc, closed, closing, peerMode, tlDone, crDone, crCtxDone, fired, stalled>>
PeerStall == /\ pc = "cr_wait" /\ peerMode = "sendDataThenStallMidFrame" /\ ~stalled
             /\ stalled' = TRUE /\ pc' = "cr_discard"     \* header read OK, payload incomplete
             /\ UNCHANGED <<closed, closing, inq, peerMode, tlDone, crDone, crCtxDone, fired>>
CrGotClose == /\ pc = "cr_wait" /\ inq # <<>> /\ Head(inq) = "close" /\ inq' = <<>> /\ pc' = "cr_closeconn"
              /\ UNCHANGED <<closed, closing, peerMode, tlDone, crDone, crCtxDone, fired, stalled>>
\* the 5 s context ends a wait in the header read; it ends the discard loop only in the intended design
T5wait == /\ "T5wait" \in Timers
          /\ \/ pc = "cr_wait"
             \/ pc = "cr_discard" /\ "UnarmedDiscard" \notin Dev
          /\ fired' = fired \cup {"T5wait"} /\ pc' = "cr_closeconn"
          /\ UNCHANGED <<closed, closing, inq, peerMode, tlDone, crDone, crCtxDone, stalled>>
CrCloseConn == pc = "cr_closeconn" /\ closed' = TRUE /\ pc' = "cr_wg_tl"
          /\ UNCHANGED <<closing, inq, peerMode, tlDone, crDone, crCtxDone, fired, stalled>>
TlExit == closed /\ ~tlDone /\ tlDone' = TRUE
          /\ UNCHANGED <<pc, closed, closing, inq, peerMode, crDone, crCtxDone, fired, stalled>>
CrWgTl == pc = "cr_wg_tl" /\ tlDone /\ pc' = "cr_wg_cr"
          /\ UNCHANGED <<closed, closing, inq, peerMode, tlDone, crDone, crCtxDone, fired, stalled>>
\* waitGoroutines: wait for closeReadDone -- which is this very goroutine
CrWgCr == /\ pc = "cr_wg_cr"
          /\ \/ crDone
             \/ "CloseReadSelfWait" \notin Dev          \* intended: do not wait for oneself
          /\ pc' = "cr_unwind"
          /\ UNCHANGED <<closed, closing, inq, peerMode, tlDone, crDone, crCtxDone, fired, stalled>>
T15 == /\ "T15" \in Timers /\ pc = "cr_wg_cr" /\ fired' = fired \cup {"T15"} /\ pc' = "cr_unwind"
       /\ UNCHANGED <<closed, closing, inq, peerMode, tlDone, crDone, crCtxDone, stalled>>
CrUnwind == pc = "cr_unwind" /\ crCtxDone' = TRUE /\ crDone' = TRUE /\ pc' = "cr_exit"
       /\ UNCHANGED <<closed, closing, inq, peerMode, tlDone, fired, stalled>>
Lib == CrGotData \/ CrCas \/ CrWriteClose \/ CrGotClose \/ T5wait \/ CrCloseConn \/ TlExit \/ CrWgTl \/ CrWgCr \/ T15 \/ CrUnwind
Env == PeerData \/ PeerEcho \/ PeerStall
Next == Lib \/ Env
Spec == Init /\ [][Next]_vars /\ WF_vars(Lib) /\ WF_vars(PeerData)
\* C09: the CloseRead context is cancelled promptly after the connection closes (no long timer needed)
CtxPrompt == closed ~> crCtxDone
\* C09: a Close that started ends (bounded by the timers allowed to fire)
CloseEnds == closing ~> (pc = "cr_exit")

(* ---- decision table for the timed conformance runs (binding A/B) ---- *)
(* which 5 s timers a Close may need, by adversary: a peer that never reads can stall the write of the *)
(* Close frame (then the handshake wait is skipped); a peer that does not answer costs the 5 s wait.    *)
Adversaries == {"echo", "echoLate", "silent", "noread", "stallHeader", "stallPayload", "flood", "endless", "halfclose"}
TimersFor(a) == CASE a \in {"echo", "echoLate", "halfclose"} -> {}
                  [] a = "noread" -> {"T5write"}
                  [] OTHER -> {"T5wait"}
States == {"idle", "readerBlocked", "msgHalfRead", "closeReadActive", "closeReadData", "writerBlocked"}
Slack == 3
Bound(op, a) == IF op = "CloseNow" THEN Slack ELSE Slack + 5 * Cardinality(TimersFor(a))
====
