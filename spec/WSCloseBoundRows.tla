-------------------------- MODULE WSCloseBoundRows --------------------------
EXTENDS WSClose, Json, IOUtils, SequencesExt
StallKs == {1, 2, 3, 5, 9, 10, 13}
PayKs == {0, 1, 50, 99}
Rows == SetToSeq(
   { r \in { [adv |-> a, k |-> 0, state |-> st, op |-> op, client |-> cl, bound |-> Bound(op, a)] :
              a \in Adversaries \ {"stallHeader", "stallPayload"}, st \in States, op \in {"Close", "CloseNow"}, cl \in BOOLEAN } :
       ~(r.state = "closeReadData" /\ r.op = "CloseNow") }
   \cup { [adv |-> "stallHeader", k |-> k, state |-> st, op |-> "Close", client |-> cl, bound |-> Bound("Close", "stallHeader")] :
       k \in StallKs, st \in {"idle", "readerBlocked", "closeReadActive"}, cl \in BOOLEAN }
   \cup { [adv |-> "stallPayload", k |-> k, state |-> st, op |-> "Close", client |-> cl, bound |-> Bound("Close", "stallPayload")] :
       k \in PayKs, st \in {"idle", "readerBlocked", "msgHalfRead", "closeReadActive"}, cl \in BOOLEAN })
ASSUME PrintT(<<"rows", Len(Rows)>>)
ASSUME ndJsonSerialize(IOEnv.OUT, Rows)
=============================================================================
