-------------------------- MODULE WSCloseBoundRows --------------------------
EXTENDS WSClose, Json, IOUtils, SequencesExt
StallKs == {1, 2, 3, 5, 9, 10, 13}
PayKs == {0, 1, 50, 99}
Rows == SetToSeq(
   { r \in { [adv |-> a, k |-> 0, state |-> st, op |-> op, client |-> cl, bound |-> Bound(op, a)] :
              a \in Adversaries \ {"stallHeader", "stallPayload"}, st \in States, op \in {"Close", "CloseNow"}, cl \in BOOLEAN } :
       ~(r.state = "closeReadData" /\ r.op = "CloseNow") }
   \cup { [adv |-> "stallHeader", k |-> k, state |-> st, op |-> "Close", client |-> cl, bound |-> Bound("Close", "stallHeader")] :
       k \in StallKs, st \in {"idle", "readerBlocked", "closeReadActive"}, cl \in BOOLEAN }
   \cup { [adv |-> "stallPayload", k |-> k, state |-> st, op |-> "Close", client |-> cl, bound |-> Bound("Close", "stallPayload")] :
       k \in PayKs, st \in {"idle", "readerBlocked", "msgHalfRead", "closeReadActive"}, cl \in BOOLEAN })
(* an open streaming Writer whose unflushed data leaves the write buffer nearly full (every residue of the 4096-byte *)
(* buffer), then Close against a peer that never reads: the Close frame's header itself has to flush *)
HalfOpen == SetToSeq({ [adv |-> "noread", k |-> k, state |-> "writerHalfOpen", op |-> "Close", client |-> cl, bound |-> Bound("Close", "noread")] :
                         k \in 4060..4096, cl \in BOOLEAN })
AllRows == Rows \o HalfOpen
ASSUME PrintT(<<"rows", Len(AllRows)>>)
ASSUME ndJsonSerialize(IOEnv.OUT, AllRows)
=============================================================================
