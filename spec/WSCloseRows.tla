----------------------------- MODULE WSCloseRows -----------------------------
(* Decision table (binding A) for the close handshake (C06): for every status code and      *)
(* reason length, what Close(code, reason) must put on the wire and return, and how an      *)
(* incoming Close frame with that code must be reported.  Evaluated by TLC from WSBase.     *)
EXTENDS WSBase, TLC, Json, IOUtils, SequencesExt

(* Outcome of a local Close(code, reason):                                                   *)
(*   "frame"  a Close frame with exactly this code and reason is written; Close returns nil *)
(*            iff the peer echoes the code                                                   *)
(*   "empty"  code 1005: a Close frame with an empty body is written                        *)
(*   "error"  nothing is written, Close returns an error (the connection is closed anyway)  *)
CloseOutcome(code, rlen) ==
  IF code = 1005 THEN "empty"
  ELSE IF Sendable(code, rlen) THEN "frame" ELSE "error"

(* Outcome of receiving a Close frame whose body is code + reason of length rlen (rlen = -1: *)
(* empty body; rlen = -2: a 1-byte body)                                                      *)
RecvOutcome(code, rlen) ==
  IF rlen = -1 THEN [o |-> "closeErr", code |-> 1005, echo |-> TRUE]
  ELSE IF rlen = -2 THEN [o |-> "fail", code |-> 0, echo |-> FALSE]
  ELSE IF ValidWireCode(code) THEN [o |-> "closeErr", code |-> code, echo |-> TRUE]
  ELSE [o |-> "fail", code |-> 0, echo |-> FALSE]

AllCodes == (0..65535) \cup {-1, 65536, 2147483647}
BoundaryCodes == {0, 999, 1000, 1001, 1003, 1004, 1005, 1006, 1007, 1010, 1014, 1015, 1016, 2999, 3000, 4999, 5000, 65535, -1, 65536}
ReasonLens == {0, 1, 122, 123, 124, 125, 130}
Quick == IF "QUICK" \in DOMAIN IOEnv THEN IOEnv.QUICK = "1" ELSE FALSE

(* What the closing side's own reader has consumed when Close is called does not change the outcome: Close must find the    *)
(* peer's Close frame behind whatever is still unread (the rest of a frame, of a message, whole messages, control frames).   *)
LocalStates == {"idle", "halfread-final-frame", "halfread-last-fragment", "halfread-first-fragment", "nothing-read-of-two-messages-and-a-ping",
                "message-read-to-the-end", "compressed-halfread"}
SPK(c, r, p, pre, k) == [dir |-> "send", code |-> c, rlen |-> r, exp |-> [o |-> CloseOutcome(c, r), code |-> 0, echo |-> FALSE], peer |-> p, pre |-> pre, rkind |-> k]
SP(c, r, p, pre) == SPK(c, r, p, pre, "ascii")
S(c, r, p) == SP(c, r, p, "idle")
RvK(c, r, k) == [dir |-> "recv", code |-> c, rlen |-> r, exp |-> RecvOutcome(c, r), peer |-> "none", pre |-> "idle", rkind |-> k]
Rv(c, r)   == RvK(c, r, "ascii")
(* the peer sends its Close frame and is gone (it does not wait for the echo, every write to it fails): what the frame said is  *)
(* reported all the same -- whether the echo can be delivered does not change what was received                                  *)
RvGone(c, r) == [Rv(c, r) EXCEPT !.peer = "gone"]
(* codes -1..65536 as a sequence (no set normalisation: 200k rows in a few seconds) *)
CodeAt(i) == i - 2
SendAll0   == [i \in 1..65538 |-> S(CodeAt(i), 0, "echo")]
SendAll123 == [i \in 1..65538 |-> S(CodeAt(i), 123, "echo")]
RecvAll    == [i \in 1..65536 |-> Rv(i - 1, 0)]
(* out-of-range values that alias a sendable code when truncated to 16 bits *)
AliasCodes == UNION { {65536 + c, 131072 + c, c - 65536, 65536 * 4096 + c} : c \in {1000, 1001, 1005, 1011, 3000, 4999} }
Small == SetToSeq(
     { S(c, r, "echo") : c \in BoundaryCodes \cup {2147483647} \cup AliasCodes, r \in ReasonLens }
  \cup { S(c, 3, p) : c \in {1000, 1001, 3000, 4999, 1005}, p \in {"other", "none"} }
  \* the limits are in bytes and the reason travels verbatim, whatever it is as text: reasons that are not valid UTF-8
  \cup { SPK(c, r, "echo", "idle", "badutf8") : c \in {1000, 3000, 4999, 1006}, r \in {1, 2, 61, 122, 123, 124} }
  \cup { RvK(c, r, "badutf8") : c \in {1000, 3000, 999}, r \in {1, 2, 61, 122, 123} }
  \cup { SP(c, r, "echo", pre) : c \in {1000, 1001, 3000, 4999, 1005, 1006}, r \in {0, 3, 123}, pre \in LocalStates \ {"idle"} }
  \cup { Rv(c, r) : c \in (BoundaryCodes \cap (0..65535)), r \in {1, 122, 123} }
  \cup { RvGone(c, r) : c \in (BoundaryCodes \cap (0..65535)), r \in {0, 1, 123} }
  \cup { Rv(0, r) : r \in {-1, -2} } \cup { RvGone(0, -1) })
Rows == SendAll0 \o SendAll123 \o RecvAll \o Small
ValidCount == Cardinality({c \in 0..65535 : ValidWireCode(c)})
ASSUME PrintT(<<"rows", Len(Rows), "valid codes", ValidCount>>)
ASSUME ValidCount = 2012
ASSUME ndJsonSerialize(IOEnv.OUT, Rows)
VARIABLE x
Init == x = 0
Next == UNCHANGED x
=============================================================================
