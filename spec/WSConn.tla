------------------------------- MODULE WSConn -------------------------------
(* One nhooyr/websocket endpoint as concurrent processes, at the grain of the code's       *)
(* critical sections: the channel mutexes with their closed re-check (conn.go mu.lock),    *)
(* writeFrame as the single emission point (lock, arm, header, payload+flush, disarm,      *)
(* unlock), Write/Writer under the message lock, Ping (register, write, wait), the reader  *)
(* (Reader/Read or the read loop inside Close) answering pings, pongs and the peer's Close,*)
(* Close (casClosing, writeClose, waitCloseHandshake, close(), waitGoroutines), close()    *)
(* with its forceLocks, the timeoutLoop goroutine, and an adversarial peer.                *)
(*                                                                                         *)
(* Dev names behaviour the properties forbid and that the code had before the fix: commits;*)
(* the strict design (Dev = {}) must satisfy all invariants, and each deviation must be    *)
(* caught by TLC (kept as a regression of the model itself).                               *)
EXTENDS Integers, Sequences, FiniteSets, TLC
CONSTANTS Writers,        \* writer processes; each sends one message of Frames[w] frames
          TwoFrame,       \* writers that stream their message in two frames (Writer); the others use Write
          Dev,            \* subset of {"DataAfterClose", "EchoAfterOwnClose", "NoRecheck", "NoRearm", "CloseNowWaits", "BlockingCloseMu",
                          \*            "BlockingPong", "NoWaitForCloser"}
          PeerMay,        \* subset of {"ping", "pong", "pong2", "guess", "fpong", "data", "close", "echo", "noread"}
          CtxProcs,       \* calls whose context the application may cancel at any moment (C10); {} switches this part off
          Extra,          \* subset of {"N", "CR", "AC", "CasWindow"}: a concurrent CloseNow; the CloseRead goroutine (then it, not R, is the
                          \* reader); the asynchronous close() that a lock wait starts when its context expires (go m.c.close() in mu.lock);
                          \* "CasWindow": casClosing is not atomic for TryLock(closeMu) (see DoCloseRd) -- a switch, not a process
          Client,         \* TRUE: the endpoint is the client (its close() also takes writeFrameMu by force: the pooled bufio.Writer is its own)
          Timers          \* subset of {"T5lock", "T5wait", "T5write"}: the 5 s timers of waitCloseHandshake and of control-frame writes
                          \* that may fire ({} = "promptly")
K == "K"  R == "R"  P == "P"  N == "N"  CR == "CR"  AC == "AC"
FramesOf == [w \in Writers |-> IF w \in TwoFrame THEN 2 ELSE 1]
Procs == Writers \cup {K, R, P} \cup (Extra \ {"CasWindow"})
VARIABLES closed, closing, sentClose, lk, out, emitting, inq, pc, pingActive, pongSig, peerDid, ret, tl, wframe,
          armedW,      \* the call whose context the timeoutLoop currently watches for writes ("none" = Background)
          cancelled,   \* calls whose context the application has cancelled
          fired        \* the call whose context made the timeoutLoop close the connection
vars == <<closed, closing, sentClose, lk, out, emitting, inq, pc, pingActive, pongSig, peerDid, ret, tl, wframe, armedW, cancelled, fired>>
Locks == {"msg", "wf", "rd", "cm"}      \* cm = closeMu
(* the peer has stopped reading: the transport is full and every payload write blocks until the connection is closed *)
Stalled == "noread" \in peerDid
Init == /\ closed = FALSE /\ closing = FALSE /\ sentClose = FALSE
        /\ lk = [l \in Locks |-> "free"] /\ out = <<>> /\ emitting = "none" /\ inq = <<>>
        /\ pc = [p \in Procs |-> CASE p = K -> "k_cas" [] p = R -> (IF CR \in Extra THEN "r_done" ELSE "r_lock") [] p = P -> "p_reg"
                                   [] p = N -> "n_cas" [] p = CR -> "c_lock" [] p = AC -> "ac_idle" [] OTHER -> "w_msglock"]
        /\ pingActive = FALSE /\ pongSig = FALSE /\ peerDid = {} /\ ret = [p \in Procs |-> "none"]
        /\ tl = "running" /\ wframe = [w \in Writers |-> 1]
        /\ armedW = "none" /\ cancelled = {} /\ fired = "none"
Goto(p, l) == pc' = [pc EXCEPT ![p] = l]
U(v) == UNCHANGED v
(* mu.lock: select {closed, acquire}; after acquiring re-check closed and release if set *)
TryLock(p, l, ok, fail) ==
   \/ /\ closed /\ Goto(p, fail) /\ U(lk)
   \/ /\ lk[l] = "free"
      /\ IF closed /\ "NoRecheck" \notin Dev THEN Goto(p, fail) /\ U(lk)
         ELSE Goto(p, ok) /\ lk' = [lk EXCEPT ![l] = p]
   \* the caller's context is done while it waits: the call fails and, as documented on Conn, the connection is closed --
   \* by a goroutine of its own, because close() waits for locks the caller may itself be holding.  (A lock wait that
   \* loses the race against an already closed connection starts a closer too; it finds nothing to do and is not modelled.)
   \/ /\ AC \in Extra /\ p \in CtxProcs /\ p \in cancelled /\ ~closed /\ U(lk)
      /\ pc' = [pc EXCEPT ![p] = fail, ![AC] = IF @ = "ac_idle" THEN "ac_cl0" ELSE @]
Unlock(l) == lk' = [lk EXCEPT ![l] = "free"]        \* not owner-checked, as in the code
----------------------------------------------------------------------------
(* the frame path shared by every process: <st>_wflock, _arm, _hdr, _pay, _disarm, _wfunlock *)
Kind(p, st) == CASE p \in Writers -> "data" [] p = P -> "ping"
                 [] st \in {"rpong", "kpong", "cpong", "dpong"} -> "pong" [] OTHER -> "close"
FrameLock(p, st, after) == /\ pc[p] = st \o "_wflock" /\ TryLock(p, "wf", st \o "_arm", after)
                           /\ ret' = IF pc'[p] = after /\ p \in CtxProcs \cup Writers THEN [ret EXCEPT ![p] = "failed"] ELSE ret
                           /\ U(<<closed, closing, sentClose, out, emitting, inq, pingActive, pongSig, peerDid, tl, wframe, armedW, cancelled, fired>>)
(* closeSent is checked first (the fix), then the write context is handed to the timeoutLoop *)
Refused(kind) == /\ sentClose
                 /\ \/ kind = "data"  /\ "DataAfterClose" \notin Dev
                    \/ kind = "close" /\ "EchoAfterOwnClose" \notin Dev
(* select { case <-c.closed: fail; case c.writeTimeout <- ctx: armed }: when the connection is closed but the timeoutLoop has not *)
(* left yet BOTH cases are ready and Go picks either -- a frame may still be started on a closed connection                      *)
FrameArm(p, st) == /\ pc[p] = st \o "_arm"
                   /\ \/ /\ Refused(Kind(p, st)) \/ closed \/ tl # "running"
                         /\ Goto(p, st \o "_wfunlock") /\ U(armedW) /\ ret' = (IF p \in CtxProcs \cup Writers THEN [ret EXCEPT ![p] = "failed"] ELSE ret)
                      \/ /\ ~Refused(Kind(p, st)) /\ tl = "running"
                         /\ Goto(p, st \o "_hdr") /\ armedW' = (IF p \in CtxProcs THEN p ELSE "none") /\ U(ret)   \* c.writeTimeout <- ctx
                   /\ U(<<closed, closing, sentClose, lk, out, emitting, inq, pingActive, pongSig, peerDid, tl, wframe, cancelled, fired>>)
FrameHdr(p, st) == /\ pc[p] = st \o "_hdr"
                   /\ LET kind == Kind(p, st) IN
                      /\ out' = Append(out, [k |-> kind, by |-> p, part |-> "hdr",
                                             n |-> IF p \in Writers THEN wframe[p] ELSE 1])
                      /\ emitting' = p /\ sentClose' = (sentClose \/ kind = "close") /\ Goto(p, st \o "_pay")
                   /\ U(<<closed, closing, lk, inq, pingActive, pongSig, peerDid, ret, tl, wframe, armedW, cancelled, fired>>)
FramePay(p, st) == /\ pc[p] = st \o "_pay"
                   /\ (~Stalled \/ closed)      \* a write into a full transport returns when the peer reads or the connection is closed
                   /\ out' = Append(out, [k |-> Kind(p, st), by |-> p, part |-> "pay", n |-> IF p \in Writers THEN wframe[p] ELSE 1])
                   /\ emitting' = "none" /\ Goto(p, st \o "_disarm")
                   /\ U(<<closed, closing, sentClose, lk, inq, pingActive, pongSig, peerDid, ret, tl, wframe, armedW, cancelled, fired>>)
(* on success the context is handed back: c.writeTimeout <- context.Background(); if the connection closed meanwhile the frame fails *)
(* (the same select as in FrameArm: closed and a timeoutLoop that is still receiving make both cases ready)                        *)
FrameDisarm(p, st) == /\ pc[p] = st \o "_disarm" /\ Goto(p, st \o "_wfunlock")
                      /\ \/ (closed \/ tl # "running") /\ U(armedW) /\ ret' = (IF p \in CtxProcs \cup Writers THEN [ret EXCEPT ![p] = "failed"] ELSE ret)
                         \/ tl = "running" /\ armedW' = (IF "NoRearm" \in Dev THEN armedW ELSE "none") /\ U(ret)
                      /\ U(<<closed, closing, sentClose, lk, out, emitting, inq, pingActive, pongSig, peerDid, tl, wframe, cancelled, fired>>)
FrameUnlock(p, st, after) == /\ pc[p] = st \o "_wfunlock" /\ Unlock("wf") /\ Goto(p, after)
                      /\ U(<<closed, closing, sentClose, out, emitting, inq, pingActive, pongSig, peerDid, ret, tl, wframe, armedW, cancelled, fired>>)
(* writeControl gives Close, Ping-reply and error frames 5 s: when that context expires the timeoutLoop closes the connection *)
(* the timeoutLoop closing the connection because a context it watches is done: it runs close() like anybody -- closeMu, the flag,  *)
(* the transport, the forceLocks, release -- and is gone only then (timeoutLoopDone).  Taking closeMu and raising the flag is one  *)
(* step here (nobody can observe the difference); TLCloseDone is the rest: it needs the locks close() takes by force to be free.  *)
TLCloses == lk["cm"] = "free" /\ closed' = TRUE /\ tl' = "closing" /\ lk' = [lk EXCEPT !["cm"] = "TL"]
T5Write(p, st) == /\ "T5write" \in Timers /\ pc[p] = st \o "_pay" /\ Stalled /\ ~closed /\ tl = "running"
                  /\ Kind(p, st) \in {"close", "pong"}
                  /\ TLCloses
                  /\ U(<<closing, sentClose, out, emitting, inq, pc, pingActive, pongSig, peerDid, ret, wframe, armedW, cancelled, fired>>)
(* the 5 s context of a control-frame write bounds the wait for the frame lock as well: when it expires mu.lock starts the    *)
(* asynchronous closer (go c.close()) and the write fails; without the AC process its close() is collapsed into the flag flip *)
T5WriteLock(p, st, after) ==
                  /\ "T5write" \in Timers /\ pc[p] = st \o "_wflock" /\ lk["wf"] # "free" /\ ~closed
                  /\ Kind(p, st) \in {"close", "pong"}
                  /\ IF AC \in Extra THEN pc' = [pc EXCEPT ![p] = after, ![AC] = IF @ = "ac_idle" THEN "ac_cl0" ELSE @] /\ U(closed)
                     ELSE Goto(p, after) /\ closed' = TRUE
                  /\ U(<<closing, sentClose, lk, out, emitting, inq, pingActive, pongSig, peerDid, ret, tl, wframe, armedW, cancelled, fired>>)
Frame(p, st, after) == FrameLock(p, st, after) \/ FrameArm(p, st) \/ FrameHdr(p, st) \/ FramePay(p, st) \/ T5Write(p, st)
                       \/ T5WriteLock(p, st, after)
                       \/ FrameDisarm(p, st) \/ FrameUnlock(p, st, after)
----------------------------------------------------------------------------
(* writer: msgWriter.reset (message lock), FramesOf[w] frames, unlock *)
WMsgLock(w) == /\ pc[w] = "w_msglock" /\ TryLock(w, "msg", "w_wflock", "w_done")
               /\ U(<<closed, closing, sentClose, out, emitting, inq, pingActive, pongSig, peerDid, ret, tl, wframe, armedW, cancelled, fired>>)
(* A streaming writer (msgWriter.Write / Close) whose frame could not be written, or that finds the connection closed between two *)
(* frames, returns the error WITHOUT releasing the message lock (write.go: mw.mu.unlock() is the last statement of a successful   *)
(* Close): the unfinished message stays on the wire, and nobody may start another one behind it.  Conn.Write of an uncompressed  *)
(* message (one frame) releases the lock in a defer.  Dev "UnlockOnFailure": every return path of Close releases it.             *)
WNext(w) == /\ pc[w] = "w_after"
            /\ LET more == wframe[w] < FramesOf[w]  failedW == ret[w] = "failed" IN
               /\ IF more /\ ~closed /\ ~failedW
                    THEN wframe' = [wframe EXCEPT ![w] = wframe[w] + 1] /\ Goto(w, "w_wflock") /\ U(lk)
                    ELSE IF w \in TwoFrame /\ (more \/ failedW) /\ "UnlockOnFailure" \notin Dev
                      THEN Goto(w, "w_done") /\ U(<<lk, wframe>>)
                      ELSE Unlock("msg") /\ Goto(w, "w_done") /\ U(wframe)
               /\ ret' = IF ~(more /\ ~closed /\ ~failedW) /\ ret[w] = "none" THEN [ret EXCEPT ![w] = "ok"] ELSE ret
            /\ U(<<closed, closing, sentClose, out, emitting, inq, pingActive, pongSig, peerDid, tl, armedW, cancelled, fired>>)
Writer(w) == WMsgLock(w) \/ Frame(w, "w", "w_after") \/ WNext(w)
(* pinger: register, write the ping, wait for its pong or for the connection to close *)
PReg == /\ pc[P] = "p_reg" /\ pingActive' = TRUE /\ Goto(P, "p_wflock")
        /\ U(<<closed, closing, sentClose, lk, out, emitting, inq, pongSig, peerDid, ret, tl, wframe, armedW, cancelled, fired>>)
PWait == /\ pc[P] = "p_wait"
         /\ \/ ret[P] = "failed" /\ U(ret)                               \* writing the ping frame failed: Ping returns that error
            \/ ret[P] # "failed" /\ pongSig /\ ret' = [ret EXCEPT ![P] = "nil"]
            \/ ret[P] # "failed" /\ closed /\ ret' = [ret EXCEPT ![P] = "errClosed"]
         /\ pongSig' = (pongSig /\ ret'[P] # "nil")          \* only the pong branch of the select takes the signal out of the channel
         /\ pingActive' = FALSE /\ Goto(P, "p_done")
         /\ U(<<closed, closing, sentClose, lk, out, emitting, inq, peerDid, tl, wframe, armedW, cancelled, fired>>)
(* the Ping's context is done while it waits for the pong: as documented on Conn the connection is closed -- by Ping itself, *)
(* synchronously (it holds no lock) -- and Ping returns the context's error; the ping is unregistered when Ping returns      *)
PWaitCtx == /\ pc[P] = "p_wait" /\ P \in CtxProcs /\ P \in cancelled /\ ret[P] # "failed"
            /\ ret' = [ret EXCEPT ![P] = "failed"] /\ Goto(P, "pc_cl0")
            /\ U(<<closed, closing, sentClose, lk, out, emitting, inq, pingActive, pongSig, peerDid, tl, wframe, armedW, cancelled, fired>>)
PFin == /\ pc[P] = "p_fin" /\ pingActive' = FALSE /\ Goto(P, "p_done")
        /\ U(<<closed, closing, sentClose, lk, out, emitting, inq, pongSig, peerDid, ret, tl, wframe, armedW, cancelled, fired>>)
(* close() = closeWith(false): closeMu; check-and-flip of the closed flag; the forceLocks of msgWriter.close and of readMu;   *)
(* release.  closeWith(true) is the read loop closing the connection after a Close frame while it holds readMu: it may only   *)
(* TRY closeMu, because whoever holds closeMu may be waiting for readMu; when the try fails it releases readMu first and then  *)
(* goes the ordinary way (labels st \o "f").  Dev "BlockingCloseMu" is the first version of that fix: it waits.                *)
Rest == <<closed, closing, sentClose, out, emitting, inq, pingActive, pongSig, peerDid, ret, tl, wframe, armedW, cancelled, fired>>
CmAcquire(p, st) == /\ pc[p] = st \o "_cl0" /\ lk["cm"] = "free" /\ lk' = [lk EXCEPT !["cm"] = p] /\ Goto(p, st \o "_clA") /\ U(Rest)
CmFlip(p, st) == /\ pc[p] = st \o "_clA"
                 /\ IF closed THEN Goto(p, st \o "_clZ") /\ U(closed) ELSE closed' = TRUE /\ Goto(p, st \o "_cl1")
                 /\ U(<<closing, sentClose, lk, out, emitting, inq, pingActive, pongSig, peerDid, ret, tl, wframe, armedW, cancelled, fired>>)
CmForceWf(p, st) == /\ pc[p] = st \o "_cl1" /\ Goto(p, st \o "_cl2") /\ U(Rest)
                    /\ IF Client THEN lk["wf"] = "free" /\ lk' = [lk EXCEPT !["wf"] = "close"] ELSE U(lk)   \* msgWriter.close: client only
CmForceRd(p, st, holdsRd) == /\ pc[p] = st \o "_cl2" /\ Goto(p, st \o "_clZ") /\ U(Rest)
                             /\ IF holdsRd THEN U(lk) ELSE lk["rd"] = "free" /\ lk' = [lk EXCEPT !["rd"] = "close"]
CmRelease(p, st, after) == /\ pc[p] = st \o "_clZ" /\ lk' = [lk EXCEPT !["cm"] = "free"] /\ Goto(p, after) /\ U(Rest)
DoClose(p, st, after) == CmAcquire(p, st) \/ CmFlip(p, st) \/ CmForceWf(p, st) \/ CmForceRd(p, st, FALSE) \/ CmRelease(p, st, after)
Pinger == PReg \/ Frame(P, "p", "p_wait") \/ PWait \/ PWaitCtx \/ DoClose(P, "pc", "p_fin") \/ PFin
(* casClosing takes closeMu for a moment, and so does the last step of waitGoroutines *)
BrieflyHoldsCm(x) == \/ pc[x] \in {"k_cas", "n_cas", "c_cas"}
                     \/ pc[x] \in {"k_wg", "kl_wg", "n_wg", "nl_wg"} /\ closed /\ tl = "exited"
DoCloseRd(p, st, after) ==
   \* TryLock(closeMu) succeeds only if nobody holds it; it also fails while somebody is inside casClosing, which takes closeMu for
   \* a moment and is one atomic step here: a process that is about to run casClosing may be the holder
   \/ /\ pc[p] = st \o "_cl0" /\ U(Rest)
      /\ \/ lk["cm"] = "free" /\ lk' = [lk EXCEPT !["cm"] = p] /\ Goto(p, st \o "_clA")
         \/ /\ lk["cm"] # "free" \/ ("CasWindow" \in Extra /\ \E x \in Procs : BrieflyHoldsCm(x))
            /\ "BlockingCloseMu" \notin Dev /\ lk' = [lk EXCEPT !["rd"] = "free"] /\ Goto(p, st \o "f_cl0")
   \/ CmFlip(p, st) \/ CmForceWf(p, st) \/ CmForceRd(p, st, TRUE) \/ CmRelease(p, st, after)
   \/ DoClose(p, st \o "f", after)
(* casClosing: only one of Close, CloseNow and the CloseRead goroutine wins *)
Cas(p, at, win, lose) == /\ pc[p] = at /\ lk["cm"] = "free"      \* casClosing runs under closeMu
                         /\ IF closing THEN Goto(p, lose) /\ U(closing) ELSE closing' = TRUE /\ Goto(p, win)
                         /\ U(<<closed, sentClose, lk, out, emitting, inq, pingActive, pongSig, peerDid, ret, tl, wframe, armedW, cancelled, fired>>)
(* waitGoroutines: timeoutLoopDone, closeReadDone (if CloseRead was called), closed *)
(* and, last, closeMu is taken and released: whoever is inside close() -- the connection may have been closed by the        *)
(* asynchronous closer of an expired lock wait -- has finished (the fix: commit of C20; before it Close could return while   *)
(* that goroutine was still closing the transport).  Dev "NoWaitForCloser" is the earlier behaviour.                         *)
WgDone == tl = "exited" /\ closed /\ (CR \in Extra => pc[CR] = "c_done")
WgReady == WgDone /\ ("NoWaitForCloser" \in Dev \/ lk["cm"] = "free")
(* what a reader (R, or K inside waitCloseHandshake) does with the next inbound frame *)
ReadFrame(p, st, onData) ==
   /\ pc[p] = st \o "_hdr_in" /\ inq # <<>> /\ inq' = Tail(inq)
   /\ CASE Head(inq) = "ping"  -> Goto(p, st \o "pong_wflock") /\ U(pongSig)
        [] Head(inq) = "pong"  -> U(pongSig) /\ Goto(p, IF pingActive THEN st \o "_pongsig" ELSE st \o "_hdr_in")   \* looked up in activePings
        [] Head(inq) = "fpong" -> U(pongSig) /\ Goto(p, st \o "_hdr_in")       \* foreign payload: ignored
        [] Head(inq) = "data"  -> Goto(p, onData) /\ U(pongSig)
        [] Head(inq) = "close" -> Goto(p, st \o "echo_wflock") /\ U(pongSig)
   /\ U(<<closed, closing, sentClose, lk, out, emitting, pingActive, peerDid, ret, tl, wframe, armedW, cancelled, fired>>)
(* handleControl(opPong): the pong is handed to its Ping through a one-slot channel WITHOUT blocking (a duplicate is dropped).  *)
(* Dev "BlockingPong": a plain channel send -- the reader, readMu held, waits for room; closing the connection does not wake it *)
PongSignal(p, st) == /\ pc[p] = st \o "_pongsig"
                     /\ ("BlockingPong" \in Dev => ~pongSig)      \* the channel it got hold of stays full if its Ping has given up
                     /\ pongSig' = TRUE /\ Goto(p, st \o "_hdr_in")
                     /\ U(<<closed, closing, sentClose, lk, out, emitting, inq, pingActive, peerDid, ret, tl, wframe, armedW, cancelled, fired>>)
ReaderBody(p, st, after, onData) ==
   \/ ReadFrame(p, st, onData) \/ PongSignal(p, st)
   \/ /\ pc[p] = st \o "_hdr_in" /\ closed /\ Goto(p, st \o "_rdunlock")       \* a blocked read is woken by close
      /\ U(<<closed, closing, sentClose, lk, out, emitting, inq, pingActive, pongSig, peerDid, ret, tl, wframe, armedW, cancelled, fired>>)
   \/ Frame(p, st \o "pong", st \o "_hdr_in")
   \/ Frame(p, st \o "echo", st \o "x_cl0")
   \/ DoCloseRd(p, st \o "x", st \o "_rdunlock")                                \* handleControl: closeWith(true), readMu still held
   \/ /\ pc[p] = st \o "_rdunlock" /\ Unlock("rd") /\ Goto(p, after)             \* deferred unlock
      /\ U(<<closed, closing, sentClose, out, emitting, inq, pingActive, pongSig, peerDid, ret, tl, wframe, armedW, cancelled, fired>>)
RLock == /\ pc[R] = "r_lock" /\ TryLock(R, "rd", "r_hdr_in", "r_done")
         /\ U(<<closed, closing, sentClose, out, emitting, inq, pingActive, pongSig, peerDid, ret, tl, wframe, armedW, cancelled, fired>>)
Reader == RLock \/ ReaderBody(R, "r", "r_done", "r_hdr_in")
(* Close: casClosing, writeClose, waitCloseHandshake (5 s lock wait, 5 s read wait), close(), waitGoroutines *)
WaitLock(p, at, ok, fail) == /\ pc[p] = at
             /\ \/ TryLock(p, "rd", ok, fail)
                \* 5 s lock timeout: like every lock wait whose context expires it closes the connection through a goroutine of its own
                \/ "T5lock" \in Timers /\ lk["rd"] # "free" /\ ~closed /\ U(lk)
                   /\ IF AC \in Extra THEN pc' = [pc EXCEPT ![p] = fail, ![AC] = IF @ = "ac_idle" THEN "ac_cl0" ELSE @] ELSE Goto(p, fail)
             /\ U(<<closed, closing, sentClose, out, emitting, inq, pingActive, pongSig, peerDid, ret, tl, wframe, armedW, cancelled, fired>>)
(* the 5 s wait for the peer's Close frame ends: the timeoutLoop, which watches that context, closes the connection (TLCloses);  *)
(* the blocked read is then woken like any other                                                                                *)
T5(p, st) == /\ "T5wait" \in Timers /\ pc[p] = st \o "_hdr_in" /\ inq = <<>> /\ ~closed /\ tl = "running" /\ TLCloses
             /\ U(<<closing, sentClose, out, emitting, inq, pc, pingActive, pongSig, peerDid, ret, wframe, armedW, cancelled, fired>>)
KPre == /\ pc[K] = "k_cl0pre" /\ Goto(K, "k_cl0")
        /\ U(<<closed, closing, sentClose, lk, out, emitting, inq, pingActive, pongSig, peerDid, ret, tl, wframe, armedW, cancelled, fired>>)
WaitGor(p, at, done, val) == /\ pc[p] = at /\ WgReady /\ Goto(p, done) /\ ret' = [ret EXCEPT ![p] = val]
            /\ U(<<closed, closing, sentClose, lk, out, emitting, inq, pingActive, pongSig, peerDid, tl, wframe, armedW, cancelled, fired>>)
Closer == Cas(K, "k_cas", "k1_wflock", "kl_wg") \/ Frame(K, "k1", "k_waitlock") \/ WaitLock(K, "k_waitlock", "k_hdr_in", "k_cl0pre")
          \/ T5(K, "k") \/ ReaderBody(K, "k", "k_cl0pre", "k_hdr_in") \/ KPre
          \/ DoClose(K, "k", "k_wg") \/ WaitGor(K, "k_wg", "k_done", "returned") \/ WaitGor(K, "kl_wg", "k_done", "errClosed")
(* CloseNow: casClosing; close() whether it won or not (Dev "CloseNowWaits": the loser only waited); waitGoroutines *)
CloseNower == /\ N \in Extra
              /\ \/ Cas(N, "n_cas", "n_cl0", IF "CloseNowWaits" \in Dev THEN "nl_wg" ELSE "nl_cl0")
                 \/ DoClose(N, "n", "n_wg") \/ DoClose(N, "nl", "nl_wg")
                 \/ WaitGor(N, "n_wg", "n_done", "returned") \/ WaitGor(N, "nl_wg", "n_done", "errClosed")
(* the CloseRead goroutine: Reader(ctx); a data message makes it (if it wins casClosing) run the close handshake with 1008;   *)
(* in every case its deferred close() runs, then its context is cancelled and closeReadDone closed (pc = "c_done").            *)
CRUnlock(at, to) == /\ pc[CR] = at /\ Unlock("rd") /\ Goto(CR, to)
                    /\ U(<<closed, closing, sentClose, out, emitting, inq, pingActive, pongSig, peerDid, ret, tl, wframe, armedW, cancelled, fired>>)
CloseReader == /\ CR \in Extra
               /\ \/ (pc[CR] = "c_lock" /\ TryLock(CR, "rd", "c_hdr_in", "c_cl0")
                        /\ U(<<closed, closing, sentClose, out, emitting, inq, pingActive, pongSig, peerDid, ret, tl, wframe, armedW, cancelled, fired>>))
                  \/ ReaderBody(CR, "c", "c_cl0", "c_rdunlockD")
                  \/ CRUnlock("c_rdunlockD", "c_cas")                         \* Reader returned the message: its deferred unlock
                  \/ Cas(CR, "c_cas", "c1_wflock", "c_cl0")
                  \/ Frame(CR, "c1", "d_waitlock") \/ WaitLock(CR, "d_waitlock", "d_hdr_in", "c_cl0")
                  \/ T5(CR, "d") \/ ReaderBody(CR, "d", "c_cl0", "d_hdr_in")
                  \/ DoClose(CR, "c", "c_done")
(* timeoutLoop goroutine: leaves once the connection is closed *)
TLExit == /\ tl = "running" /\ closed /\ tl' = "exited"
          /\ U(<<closed, closing, sentClose, lk, out, emitting, inq, pc, pingActive, pongSig, peerDid, ret, wframe, armedW, cancelled, fired>>)
(* the application cancels the context of a call at any moment, also long after the call returned (defer cancel()) *)
CtxCancel(p) == /\ p \in CtxProcs /\ p \notin cancelled /\ cancelled' = cancelled \cup {p}
                /\ U(<<closed, closing, sentClose, lk, out, emitting, inq, pc, pingActive, pongSig, peerDid, ret, tl, wframe, armedW, fired>>)
(* timeoutLoop: the watched context is done -> close() (TLCloses, then TLCloseDone)                                             *)
TLFireW == /\ tl = "running" /\ ~closed /\ armedW # "none" /\ armedW \in cancelled
           /\ TLCloses /\ fired' = armedW
           /\ U(<<closing, sentClose, out, emitting, inq, pc, pingActive, pongSig, peerDid, ret, wframe, armedW, cancelled>>)
TLCloseDone == /\ tl = "closing" /\ (Client => lk["wf"] = "free") /\ lk["rd"] = "free"
               /\ lk' = [lk EXCEPT !["cm"] = "free", !["wf"] = IF Client THEN "close" ELSE @, !["rd"] = "close"] /\ tl' = "exited"
               /\ U(<<closed, closing, sentClose, out, emitting, inq, pc, pingActive, pongSig, peerDid, ret, wframe, armedW, cancelled, fired>>)
(* the peer: each of its possible moves at most once, in any order *)
InqBound == 2      \* frames of the peer in flight (a bound of the exhaustive configurations; trace validation lifts it)
PeerAct(a, f) == /\ a \in PeerMay /\ a \notin peerDid /\ Len(inq) < InqBound /\ inq' = Append(inq, f) /\ peerDid' = peerDid \cup {a}
                 /\ U(<<closed, closing, sentClose, lk, out, emitting, pc, pingActive, pongSig, ret, tl, wframe, armedW, cancelled, fired>>)
SawOut(kind) == \E i \in 1..Len(out) : out[i].k = kind /\ out[i].part = "pay"
(* pongs: after the ping was seen -- or, the payload being a counter the peer can guess, as soon as the Ping is registered *)
MayPong == SawOut("ping") \/ ("guess" \in PeerMay /\ pingActive)
PeerStall == /\ "noread" \in PeerMay /\ "noread" \notin peerDid /\ peerDid' = peerDid \cup {"noread"}
             /\ U(<<closed, closing, sentClose, lk, out, emitting, inq, pc, pingActive, pongSig, ret, tl, wframe, armedW, cancelled, fired>>)
Peer == \/ PeerAct("ping", "ping") \/ PeerAct("data", "data") \/ PeerAct("close", "close") \/ PeerAct("fpong", "fpong")
        \/ (MayPong /\ (PeerAct("pong", "pong") \/ PeerAct("pong2", "pong"))) \/ (SawOut("close") /\ PeerAct("echo", "close"))
        \/ PeerStall
AsyncCloser == AC \in Extra /\ DoClose(AC, "ac", "ac_done")
Lib == (\E w \in Writers : Writer(w)) \/ Pinger \/ Reader \/ Closer \/ CloseNower \/ CloseReader \/ AsyncCloser \/ TLExit \/ TLFireW \/ TLCloseDone
App == \E p \in CtxProcs : CtxCancel(p)
Next == Lib \/ Peer \/ App
Spec == Init /\ [][Next]_vars /\ WF_vars(Lib)
----------------------------------------------------------------------------
Hdrs == SelectSeq(out, LAMBDA x : x.part = "hdr")
FirstClose == IF \E i \in 1..Len(Hdrs) : Hdrs[i].k = "close"
              THEN CHOOSE i \in 1..Len(Hdrs) : Hdrs[i].k = "close" /\ \A j \in 1..(i-1) : Hdrs[j].k # "close" ELSE 0
(* C16: after the first Close frame no data frame and no second Close frame *)
NothingAfterClose == FirstClose # 0 => \A j \in (FirstClose+1)..Len(Hdrs) : Hdrs[j].k \notin {"data", "close"}
(* C05: a frame's header and payload are contiguous and written by the lock holder *)
FrameAtomic == \A i \in 1..Len(out) : out[i].part = "hdr" =>
                  \/ (i = Len(out) /\ emitting = out[i].by)
                  \/ (i < Len(out) /\ out[i+1].part = "pay" /\ out[i+1].by = out[i].by)
(* C05: between the first and the last frame of a data message only control frames *)
NoMsgInterleave == \A i, j \in 1..Len(Hdrs) :
                      (i < j /\ Hdrs[i].k = "data" /\ Hdrs[j].k = "data" /\ Hdrs[i].by = Hdrs[j].by /\ Hdrs[i].n = 1 /\ Hdrs[j].n = 2)
                        => \A m \in (i+1)..(j-1) : Hdrs[m].k # "data"
(* ... and no data message starts while another writer's message is unfinished (its first frame out, its last one not) *)
NoMsgInsideUnfinished == \A i, j \in 1..Len(Hdrs) :
                      (i < j /\ Hdrs[i].k = "data" /\ Hdrs[j].k = "data" /\ Hdrs[i].by # Hdrs[j].by /\ Hdrs[i].n = 1 /\ FramesOf[Hdrs[i].by] = 2)
                        => \E m \in (i+1)..(j-1) : Hdrs[m].k = "data" /\ Hdrs[m].by = Hdrs[i].by /\ Hdrs[m].n = 2
MutexOK == \A l \in Locks : lk[l] \in {"free", "close", "TL"} \cup Procs
EmitterHoldsLock == emitting # "none" => lk["wf"] = emitting
(* C15 *)
PingNilOnlyAfterPong == ret[P] = "nil" => {"pong", "pong2"} \cap peerDid # {}
PongOnlyForPing == \A i \in 1..Len(Hdrs) : Hdrs[i].k = "pong" => "ping" \in peerDid
(* C20: when Close has returned the timeoutLoop goroutine is gone; C06: and the connection is closed *)
(*      ... and no asynchronous closer is still inside close() (one that has not got hold of closeMu yet finds the connection    *)
(*      closed and leaves at once: it is not waited for, in the code as in the model)                                           *)
AcInside == AC \in Extra /\ pc[AC] \in {"ac_cl1", "ac_cl2"}     \* it raised the closed flag itself and is releasing locks, buffers, transport
CloseReturnedClean == \A p \in {K, N} \cap Procs : ret[p] \in {"returned", "errClosed"} => WgDone /\ ~AcInside
(* C06: of concurrent Close/CloseNow calls at most one reports success, the others net.ErrClosed *)
AtMostOneWinner == Cardinality({p \in {K, N} \cap Procs : ret[p] = "returned"}) <= 1
(* C10: the context of a call that returned successfully never closes the connection; and whenever no frame is in flight the   *)
(* timeoutLoop watches Background                                                                                              *)
Harmless == fired # "none" => ret[fired] \notin {"ok", "nil"}
ArmedOnlyInFrame == armedW # "none" => (\E st \in {"w", "p"} : pc[armedW] \in {st \o "_hdr", st \o "_pay", st \o "_disarm"}) \/ closed \/ "NoRearm" \in Dev
(* C09 (with the 5 s timers KWaitLock/KT5 as the only timers): Close ends, every call returns *)
CloseTerminates == <>(pc[K] = "k_done")
Done == {"w_done", "p_done", "r_done", "k_done", "n_done", "c_done", "ac_idle", "ac_done"}
AllReturn == <>[](\A p \in Procs : pc[p] \in Done)
(* C09 with Timers = {}: CloseNow needs no timer; once the connection is closed every call returns and the CloseRead goroutine *)
(* ends (its context is cancelled) without any timer                                                                           *)
CloseNowPrompt == N \in Extra => <>(pc[N] = "n_done")
ClosedUnblocksAll == closed ~> (\A p \in Procs : pc[p] \in Done)
=============================================================================
