---- MODULE WSConn_TTrace_1790297372 ----
EXTENDS Sequences, TLCExt, Toolbox, Naturals, TLC, WSConn

_expression ==
    LET WSConn_TEExpression == INSTANCE WSConn_TEExpression
    IN WSConn_TEExpression!expression
----

_trace ==
    LET WSConn_TETrace == INSTANCE WSConn_TETrace
    IN WSConn_TETrace!trace
----

_inv ==
    ~(
        TLCGet("level") = Len(_TETrace)
        /\
        fired = ("none")
        /\
        ret = ([A |-> "failed", B |-> "none", AC |-> "none", K |-> "none", R |-> "none", P |-> "none"])
        /\
        emitting = ("B")
        /\
        armedW = ("none")
        /\
        peerDid = ({})
        /\
        inq = (<<>>)
        /\
        out = (<<[k |-> "data", by |-> "A", part |-> "hdr", n |-> 1], [k |-> "data", by |-> "A", part |-> "pay", n |-> 1], [k |-> "data", by |-> "B", part |-> "hdr", n |-> 1]>>)
        /\
        pingActive = (FALSE)
        /\
        pc = ([A |-> "w_done", B |-> "w_pay", AC |-> "ac_cl0", K |-> "k_cas", R |-> "r_lock", P |-> "p_reg"])
        /\
        closing = (FALSE)
        /\
        wframe = ([A |-> 2, B |-> 1])
        /\
        sentClose = (FALSE)
        /\
        tl = ("running")
        /\
        cancelled = ({"A"})
        /\
        closed = (FALSE)
        /\
        pongSig = (FALSE)
        /\
        lk = ([msg |-> "B", wf |-> "B", rd |-> "free", cm |-> "free"])
    )
----

_init ==
    /\ lk = _TETrace[1].lk
    /\ cancelled = _TETrace[1].cancelled
    /\ emitting = _TETrace[1].emitting
    /\ pingActive = _TETrace[1].pingActive
    /\ armedW = _TETrace[1].armedW
    /\ out = _TETrace[1].out
    /\ pc = _TETrace[1].pc
    /\ sentClose = _TETrace[1].sentClose
    /\ closing = _TETrace[1].closing
    /\ fired = _TETrace[1].fired
    /\ ret = _TETrace[1].ret
    /\ pongSig = _TETrace[1].pongSig
    /\ peerDid = _TETrace[1].peerDid
    /\ inq = _TETrace[1].inq
    /\ tl = _TETrace[1].tl
    /\ wframe = _TETrace[1].wframe
    /\ closed = _TETrace[1].closed
----

_next ==
    /\ \E i,j \in DOMAIN _TETrace:
        /\ \/ /\ j = i + 1
              /\ i = TLCGet("level")
        /\ lk  = _TETrace[i].lk
        /\ lk' = _TETrace[j].lk
        /\ cancelled  = _TETrace[i].cancelled
        /\ cancelled' = _TETrace[j].cancelled
        /\ emitting  = _TETrace[i].emitting
        /\ emitting' = _TETrace[j].emitting
        /\ pingActive  = _TETrace[i].pingActive
        /\ pingActive' = _TETrace[j].pingActive
        /\ armedW  = _TETrace[i].armedW
        /\ armedW' = _TETrace[j].armedW
        /\ out  = _TETrace[i].out
        /\ out' = _TETrace[j].out
        /\ pc  = _TETrace[i].pc
        /\ pc' = _TETrace[j].pc
        /\ sentClose  = _TETrace[i].sentClose
        /\ sentClose' = _TETrace[j].sentClose
        /\ closing  = _TETrace[i].closing
        /\ closing' = _TETrace[j].closing
        /\ fired  = _TETrace[i].fired
        /\ fired' = _TETrace[j].fired
        /\ ret  = _TETrace[i].ret
        /\ ret' = _TETrace[j].ret
        /\ pongSig  = _TETrace[i].pongSig
        /\ pongSig' = _TETrace[j].pongSig
        /\ peerDid  = _TETrace[i].peerDid
        /\ peerDid' = _TETrace[j].peerDid
        /\ inq  = _TETrace[i].inq
        /\ inq' = _TETrace[j].inq
        /\ tl  = _TETrace[i].tl
        /\ tl' = _TETrace[j].tl
        /\ wframe  = _TETrace[i].wframe
        /\ wframe' = _TETrace[j].wframe
        /\ closed  = _TETrace[i].closed
        /\ closed' = _TETrace[j].closed

\* Uncomment the ASSUME below to write the states of the error trace
\* to the given file in Json format. Note that you can pass any tuple
\* to `JsonSerialize`. For example, a sub-sequence of _TETrace.
    \* ASSUME
    \*     LET J == INSTANCE Json
    \*         IN J!JsonSerialize("WSConn_TTrace_1790297372.json", _TETrace)

=============================================================================

 Note that you can extract this module `WSConn_TEExpression`
  to a dedicated file to reuse `expression` (the module in the 
  dedicated `WSConn_TEExpression.tla` file takes precedence 
  over the module `WSConn_TEExpression` below).

---- MODULE WSConn_TEExpression ----
EXTENDS Sequences, TLCExt, Toolbox, Naturals, TLC, WSConn

expression == 
    [
        \* To hide variables of the `WSConn` spec from the error trace,
        \* remove the variables below.  The trace will be written in the order
        \* of the fields of this record.
        lk |-> lk
        ,cancelled |-> cancelled
        ,emitting |-> emitting
        ,pingActive |-> pingActive
        ,armedW |-> armedW
        ,out |-> out
        ,pc |-> pc
        ,sentClose |-> sentClose
        ,closing |-> closing
        ,fired |-> fired
        ,ret |-> ret
        ,pongSig |-> pongSig
        ,peerDid |-> peerDid
        ,inq |-> inq
        ,tl |-> tl
        ,wframe |-> wframe
        ,closed |-> closed
        
        \* Put additional constant-, state-, and action-level expressions here:
        \* ,_stateNumber |-> _TEPosition
        \* ,_lkUnchanged |-> lk = lk'
        
        \* Format the `lk` variable as Json value.
        \* ,_lkJson |->
        \*     LET J == INSTANCE Json
        \*     IN J!ToJson(lk)
        
        \* Lastly, you may build expressions over arbitrary sets of states by
        \* leveraging the _TETrace operator.  For example, this is how to
        \* count the number of times a spec variable changed up to the current
        \* state in the trace.
        \* ,_lkModCount |->
        \*     LET F[s \in DOMAIN _TETrace] ==
        \*         IF s = 1 THEN 0
        \*         ELSE IF _TETrace[s].lk # _TETrace[s-1].lk
        \*             THEN 1 + F[s-1] ELSE F[s-1]
        \*     IN F[_TEPosition - 1]
    ]

=============================================================================



Parsing and semantic processing can take forever if the trace below is long.
 In this case, it is advised to uncomment the module below to deserialize the
 trace from a generated binary file.

\*
\*---- MODULE WSConn_TETrace ----
\*EXTENDS IOUtils, TLC, WSConn
\*
\*trace == IODeserialize("WSConn_TTrace_1790297372.bin", TRUE)
\*
\*=============================================================================
\*

---- MODULE WSConn_TETrace ----
EXTENDS TLC, WSConn

trace == 
    <<
    ([fired |-> "none",ret |-> [A |-> "none", B |-> "none", AC |-> "none", K |-> "none", R |-> "none", P |-> "none"],emitting |-> "none",armedW |-> "none",peerDid |-> {},inq |-> <<>>,out |-> <<>>,pingActive |-> FALSE,pc |-> [A |-> "w_msglock", B |-> "w_msglock", AC |-> "ac_idle", K |-> "k_cas", R |-> "r_lock", P |-> "p_reg"],closing |-> FALSE,wframe |-> [A |-> 1, B |-> 1],sentClose |-> FALSE,tl |-> "running",cancelled |-> {},closed |-> FALSE,pongSig |-> FALSE,lk |-> [msg |-> "free", wf |-> "free", rd |-> "free", cm |-> "free"]]),
    ([fired |-> "none",ret |-> [A |-> "none", B |-> "none", AC |-> "none", K |-> "none", R |-> "none", P |-> "none"],emitting |-> "none",armedW |-> "none",peerDid |-> {},inq |-> <<>>,out |-> <<>>,pingActive |-> FALSE,pc |-> [A |-> "w_wflock", B |-> "w_msglock", AC |-> "ac_idle", K |-> "k_cas", R |-> "r_lock", P |-> "p_reg"],closing |-> FALSE,wframe |-> [A |-> 1, B |-> 1],sentClose |-> FALSE,tl |-> "running",cancelled |-> {},closed |-> FALSE,pongSig |-> FALSE,lk |-> [msg |-> "A", wf |-> "free", rd |-> "free", cm |-> "free"]]),
    ([fired |-> "none",ret |-> [A |-> "none", B |-> "none", AC |-> "none", K |-> "none", R |-> "none", P |-> "none"],emitting |-> "none",armedW |-> "none",peerDid |-> {},inq |-> <<>>,out |-> <<>>,pingActive |-> FALSE,pc |-> [A |-> "w_arm", B |-> "w_msglock", AC |-> "ac_idle", K |-> "k_cas", R |-> "r_lock", P |-> "p_reg"],closing |-> FALSE,wframe |-> [A |-> 1, B |-> 1],sentClose |-> FALSE,tl |-> "running",cancelled |-> {},closed |-> FALSE,pongSig |-> FALSE,lk |-> [msg |-> "A", wf |-> "A", rd |-> "free", cm |-> "free"]]),
    ([fired |-> "none",ret |-> [A |-> "none", B |-> "none", AC |-> "none", K |-> "none", R |-> "none", P |-> "none"],emitting |-> "none",armedW |-> "A",peerDid |-> {},inq |-> <<>>,out |-> <<>>,pingActive |-> FALSE,pc |-> [A |-> "w_hdr", B |-> "w_msglock", AC |-> "ac_idle", K |-> "k_cas", R |-> "r_lock", P |-> "p_reg"],closing |-> FALSE,wframe |-> [A |-> 1, B |-> 1],sentClose |-> FALSE,tl |-> "running",cancelled |-> {},closed |-> FALSE,pongSig |-> FALSE,lk |-> [msg |-> "A", wf |-> "A", rd |-> "free", cm |-> "free"]]),
    ([fired |-> "none",ret |-> [A |-> "none", B |-> "none", AC |-> "none", K |-> "none", R |-> "none", P |-> "none"],emitting |-> "A",armedW |-> "A",peerDid |-> {},inq |-> <<>>,out |-> <<[k |-> "data", by |-> "A", part |-> "hdr", n |-> 1]>>,pingActive |-> FALSE,pc |-> [A |-> "w_pay", B |-> "w_msglock", AC |-> "ac_idle", K |-> "k_cas", R |-> "r_lock", P |-> "p_reg"],closing |-> FALSE,wframe |-> [A |-> 1, B |-> 1],sentClose |-> FALSE,tl |-> "running",cancelled |-> {},closed |-> FALSE,pongSig |-> FALSE,lk |-> [msg |-> "A", wf |-> "A", rd |-> "free", cm |-> "free"]]),
    ([fired |-> "none",ret |-> [A |-> "none", B |-> "none", AC |-> "none", K |-> "none", R |-> "none", P |-> "none"],emitting |-> "none",armedW |-> "A",peerDid |-> {},inq |-> <<>>,out |-> <<[k |-> "data", by |-> "A", part |-> "hdr", n |-> 1], [k |-> "data", by |-> "A", part |-> "pay", n |-> 1]>>,pingActive |-> FALSE,pc |-> [A |-> "w_disarm", B |-> "w_msglock", AC |-> "ac_idle", K |-> "k_cas", R |-> "r_lock", P |-> "p_reg"],closing |-> FALSE,wframe |-> [A |-> 1, B |-> 1],sentClose |-> FALSE,tl |-> "running",cancelled |-> {},closed |-> FALSE,pongSig |-> FALSE,lk |-> [msg |-> "A", wf |-> "A", rd |-> "free", cm |-> "free"]]),
    ([fired |-> "none",ret |-> [A |-> "none", B |-> "none", AC |-> "none", K |-> "none", R |-> "none", P |-> "none"],emitting |-> "none",armedW |-> "none",peerDid |-> {},inq |-> <<>>,out |-> <<[k |-> "data", by |-> "A", part |-> "hdr", n |-> 1], [k |-> "data", by |-> "A", part |-> "pay", n |-> 1]>>,pingActive |-> FALSE,pc |-> [A |-> "w_wfunlock", B |-> "w_msglock", AC |-> "ac_idle", K |-> "k_cas", R |-> "r_lock", P |-> "p_reg"],closing |-> FALSE,wframe |-> [A |-> 1, B |-> 1],sentClose |-> FALSE,tl |-> "running",cancelled |-> {},closed |-> FALSE,pongSig |-> FALSE,lk |-> [msg |-> "A", wf |-> "A", rd |-> "free", cm |-> "free"]]),
    ([fired |-> "none",ret |-> [A |-> "none", B |-> "none", AC |-> "none", K |-> "none", R |-> "none", P |-> "none"],emitting |-> "none",armedW |-> "none",peerDid |-> {},inq |-> <<>>,out |-> <<[k |-> "data", by |-> "A", part |-> "hdr", n |-> 1], [k |-> "data", by |-> "A", part |-> "pay", n |-> 1]>>,pingActive |-> FALSE,pc |-> [A |-> "w_after", B |-> "w_msglock", AC |-> "ac_idle", K |-> "k_cas", R |-> "r_lock", P |-> "p_reg"],closing |-> FALSE,wframe |-> [A |-> 1, B |-> 1],sentClose |-> FALSE,tl |-> "running",cancelled |-> {},closed |-> FALSE,pongSig |-> FALSE,lk |-> [msg |-> "A", wf |-> "free", rd |-> "free", cm |-> "free"]]),
    ([fired |-> "none",ret |-> [A |-> "none", B |-> "none", AC |-> "none", K |-> "none", R |-> "none", P |-> "none"],emitting |-> "none",armedW |-> "none",peerDid |-> {},inq |-> <<>>,out |-> <<[k |-> "data", by |-> "A", part |-> "hdr", n |-> 1], [k |-> "data", by |-> "A", part |-> "pay", n |-> 1]>>,pingActive |-> FALSE,pc |-> [A |-> "w_wflock", B |-> "w_msglock", AC |-> "ac_idle", K |-> "k_cas", R |-> "r_lock", P |-> "p_reg"],closing |-> FALSE,wframe |-> [A |-> 2, B |-> 1],sentClose |-> FALSE,tl |-> "running",cancelled |-> {},closed |-> FALSE,pongSig |-> FALSE,lk |-> [msg |-> "A", wf |-> "free", rd |-> "free", cm |-> "free"]]),
    ([fired |-> "none",ret |-> [A |-> "none", B |-> "none", AC |-> "none", K |-> "none", R |-> "none", P |-> "none"],emitting |-> "none",armedW |-> "none",peerDid |-> {},inq |-> <<>>,out |-> <<[k |-> "data", by |-> "A", part |-> "hdr", n |-> 1], [k |-> "data", by |-> "A", part |-> "pay", n |-> 1]>>,pingActive |-> FALSE,pc |-> [A |-> "w_wflock", B |-> "w_msglock", AC |-> "ac_idle", K |-> "k_cas", R |-> "r_lock", P |-> "p_reg"],closing |-> FALSE,wframe |-> [A |-> 2, B |-> 1],sentClose |-> FALSE,tl |-> "running",cancelled |-> {"A"},closed |-> FALSE,pongSig |-> FALSE,lk |-> [msg |-> "A", wf |-> "free", rd |-> "free", cm |-> "free"]]),
    ([fired |-> "none",ret |-> [A |-> "failed", B |-> "none", AC |-> "none", K |-> "none", R |-> "none", P |-> "none"],emitting |-> "none",armedW |-> "none",peerDid |-> {},inq |-> <<>>,out |-> <<[k |-> "data", by |-> "A", part |-> "hdr", n |-> 1], [k |-> "data", by |-> "A", part |-> "pay", n |-> 1]>>,pingActive |-> FALSE,pc |-> [A |-> "w_after", B |-> "w_msglock", AC |-> "ac_cl0", K |-> "k_cas", R |-> "r_lock", P |-> "p_reg"],closing |-> FALSE,wframe |-> [A |-> 2, B |-> 1],sentClose |-> FALSE,tl |-> "running",cancelled |-> {"A"},closed |-> FALSE,pongSig |-> FALSE,lk |-> [msg |-> "A", wf |-> "free", rd |-> "free", cm |-> "free"]]),
    ([fired |-> "none",ret |-> [A |-> "failed", B |-> "none", AC |-> "none", K |-> "none", R |-> "none", P |-> "none"],emitting |-> "none",armedW |-> "none",peerDid |-> {},inq |-> <<>>,out |-> <<[k |-> "data", by |-> "A", part |-> "hdr", n |-> 1], [k |-> "data", by |-> "A", part |-> "pay", n |-> 1]>>,pingActive |-> FALSE,pc |-> [A |-> "w_done", B |-> "w_msglock", AC |-> "ac_cl0", K |-> "k_cas", R |-> "r_lock", P |-> "p_reg"],closing |-> FALSE,wframe |-> [A |-> 2, B |-> 1],sentClose |-> FALSE,tl |-> "running",cancelled |-> {"A"},closed |-> FALSE,pongSig |-> FALSE,lk |-> [msg |-> "free", wf |-> "free", rd |-> "free", cm |-> "free"]]),
    ([fired |-> "none",ret |-> [A |-> "failed", B |-> "none", AC |-> "none", K |-> "none", R |-> "none", P |-> "none"],emitting |-> "none",armedW |-> "none",peerDid |-> {},inq |-> <<>>,out |-> <<[k |-> "data", by |-> "A", part |-> "hdr", n |-> 1], [k |-> "data", by |-> "A", part |-> "pay", n |-> 1]>>,pingActive |-> FALSE,pc |-> [A |-> "w_done", B |-> "w_wflock", AC |-> "ac_cl0", K |-> "k_cas", R |-> "r_lock", P |-> "p_reg"],closing |-> FALSE,wframe |-> [A |-> 2, B |-> 1],sentClose |-> FALSE,tl |-> "running",cancelled |-> {"A"},closed |-> FALSE,pongSig |-> FALSE,lk |-> [msg |-> "B", wf |-> "free", rd |-> "free", cm |-> "free"]]),
    ([fired |-> "none",ret |-> [A |-> "failed", B |-> "none", AC |-> "none", K |-> "none", R |-> "none", P |-> "none"],emitting |-> "none",armedW |-> "none",peerDid |-> {},inq |-> <<>>,out |-> <<[k |-> "data", by |-> "A", part |-> "hdr", n |-> 1], [k |-> "data", by |-> "A", part |-> "pay", n |-> 1]>>,pingActive |-> FALSE,pc |-> [A |-> "w_done", B |-> "w_arm", AC |-> "ac_cl0", K |-> "k_cas", R |-> "r_lock", P |-> "p_reg"],closing |-> FALSE,wframe |-> [A |-> 2, B |-> 1],sentClose |-> FALSE,tl |-> "running",cancelled |-> {"A"},closed |-> FALSE,pongSig |-> FALSE,lk |-> [msg |-> "B", wf |-> "B", rd |-> "free", cm |-> "free"]]),
    ([fired |-> "none",ret |-> [A |-> "failed", B |-> "none", AC |-> "none", K |-> "none", R |-> "none", P |-> "none"],emitting |-> "none",armedW |-> "none",peerDid |-> {},inq |-> <<>>,out |-> <<[k |-> "data", by |-> "A", part |-> "hdr", n |-> 1], [k |-> "data", by |-> "A", part |-> "pay", n |-> 1]>>,pingActive |-> FALSE,pc |-> [A |-> "w_done", B |-> "w_hdr", AC |-> "ac_cl0", K |-> "k_cas", R |-> "r_lock", P |-> "p_reg"],closing |-> FALSE,wframe |-> [A |-> 2, B |-> 1],sentClose |-> FALSE,tl |-> "running",cancelled |-> {"A"},closed |-> FALSE,pongSig |-> FALSE,lk |-> [msg |-> "B", wf |-> "B", rd |-> "free", cm |-> "free"]]),
    ([fired |-> "none",ret |-> [A |-> "failed", B |-> "none", AC |-> "none", K |-> "none", R |-> "none", P |-> "none"],emitting |-> "B",armedW |-> "none",peerDid |-> {},inq |-> <<>>,out |-> <<[k |-> "data", by |-> "A", part |-> "hdr", n |-> 1], [k |-> "data", by |-> "A", part |-> "pay", n |-> 1], [k |-> "data", by |-> "B", part |-> "hdr", n |-> 1]>>,pingActive |-> FALSE,pc |-> [A |-> "w_done", B |-> "w_pay", AC |-> "ac_cl0", K |-> "k_cas", R |-> "r_lock", P |-> "p_reg"],closing |-> FALSE,wframe |-> [A |-> 2, B |-> 1],sentClose |-> FALSE,tl |-> "running",cancelled |-> {"A"},closed |-> FALSE,pongSig |-> FALSE,lk |-> [msg |-> "B", wf |-> "B", rd |-> "free", cm |-> "free"]])
    >>
----


=============================================================================

---- CONFIG WSConn_TTrace_1790297372 ----
CONSTANTS
    Writers = { "A" , "B" }
    TwoFrame = { "A" }
    CtxProcs = { "A" }
    Extra = { "AC" }
    Client = TRUE
    Timers = { }
    Dev = { "UnlockOnFailure" }
    PeerMay = { "echo" }

INVARIANT
    _inv

CHECK_DEADLOCK
    \* CHECK_DEADLOCK off because of PROPERTY or INVARIANT above.
    FALSE

INIT
    _init

NEXT
    _next

CONSTANT
    _TETrace <- _trace

ALIAS
    _expression
=============================================================================
\* Generated on Fri Sep 25 00:49:34 UTC 2026