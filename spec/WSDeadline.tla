------------------------------ MODULE WSDeadline ------------------------------
(* C18, the part WSNetConn takes as one step: how a NetConn deadline expires.  The timer's     *)
(* callback runs on a goroutine of its own (time.AfterFunc), so between "the timer fired" and  *)
(* "the callback ran" the application can reset the deadline.  The statement is "calls fail    *)
(* with a deadline error UNTIL THE DEADLINE IS RESET": the direction may be marked expired      *)
(* only while the deadline now in force has passed, and an idle expiry never touches the call   *)
(* context.  Dev "StaleExpiry" is the code before its fix: commit (c0e0810): the callback did not *)
(* look at the deadline in force; "NoTimerMutex" the code before 1318a05: two callbacks overlap  *)
(* and the second takes the first one's brief hold of the call lock for an active call.          *)
(* Since 939807d a Read/Write call is part of the picture: a call that STARTS after its deadline has passed must fail with a     *)
(* deadline error and leave the connection usable, whether or not the callback goroutine has run yet.  The call records the       *)
(* expiry itself (under the timer mutex, before it takes the call lock) and the callback leaves a recorded expiry alone.  Dev     *)
(* "NoEntryCheck" is the code before that fix: the call looked at the expired flag only -- it could go through, or be taken by    *)
(* the late callback for a call that was active when the deadline passed.                                                          *)
EXTENDS Integers, FiniteSets, TLC
CONSTANTS Dev, MaxSets
VARIABLES deadline,    \* the deadline in force: "none", "past" or "future"
          armed,       \* the runtime timer is set and has not fired
          inflight,    \* callbacks started by the runtime that have not finished: a set of [id, pc]
          nextId, expired, cancelled, callLock, sets, tmu,
          call,        \* the application's Read/Write: [pc |-> "idle" | "locked" | "done", late |-> it started after the deadline had passed]
          res,         \* what the call returned: "none", "deadline", "ok", "cancelled"
          badCancel    \* a callback cancelled the context of a call that had started AFTER the deadline passed
vars == <<deadline, armed, inflight, nextId, expired, cancelled, callLock, sets, tmu, call, res, badCancel>>
CALL == -1             \* holder id of the call lock when the application's call holds it
Init == /\ deadline = "none" /\ armed = FALSE /\ inflight = {} /\ nextId = 1 /\ expired = FALSE /\ cancelled = FALSE
        /\ callLock = 0 /\ sets = 0 /\ tmu = 0 /\ call = [pc |-> "idle", late |-> FALSE] /\ res = "none" /\ badCancel = FALSE
(* SetReadDeadline / SetWriteDeadline (under the timer mutex since the fix; the mutex is free whenever no callback is inside) *)
SetDeadline(v) == /\ sets < MaxSets /\ sets' = sets + 1
                  /\ ("StaleExpiry" \in Dev \/ tmu = 0)
                  /\ deadline' = v /\ expired' = FALSE /\ armed' = (v # "none")
                  /\ UNCHANGED <<inflight, nextId, cancelled, callLock, tmu, call, res, badCancel>>
(* the runtime: a timer set for a time that has passed fires and starts the callback *)
Fire == /\ armed /\ deadline = "past" /\ armed' = FALSE
        /\ inflight' = inflight \cup {[id |-> nextId, pc |-> "start"]} /\ nextId' = nextId + 1
        /\ UNCHANGED <<deadline, expired, cancelled, callLock, sets, tmu, call, res, badCancel>>
(* time passes: a deadline that was ahead is now behind *)
Tick == /\ deadline = "future" /\ deadline' = "past"
        /\ UNCHANGED <<armed, inflight, nextId, expired, cancelled, callLock, sets, tmu, call, res, badCancel>>
(* the callback, one step per critical section: timer mutex, staleness check, tryLock of the call lock, mark, release *)
CbEnter(c) == /\ c.pc = "start" /\ ("NoTimerMutex" \in Dev \/ tmu = 0) /\ tmu' = c.id
              /\ inflight' = (inflight \ {c}) \cup {[c EXCEPT !.pc = "check"]}
              /\ UNCHANGED <<deadline, armed, nextId, expired, cancelled, callLock, sets, call, res, badCancel>>
CbCheck(c) == /\ c.pc = "check"
              /\ IF ("StaleExpiry" \notin Dev /\ deadline # "past") \/ ("NoEntryCheck" \notin Dev /\ expired)   \* stale, or already recorded
                   THEN /\ inflight' = inflight \ {c} /\ tmu' = 0
                        /\ armed' = (deadline = "future")                 \* a deadline still ahead is re-armed
                        /\ UNCHANGED <<deadline, nextId, expired, cancelled, callLock, sets, call, res, badCancel>>
                   ELSE /\ IF callLock = 0
                             THEN callLock' = c.id /\ inflight' = (inflight \ {c}) \cup {[c EXCEPT !.pc = "mark"]} /\ UNCHANGED <<cancelled, badCancel>>
                             ELSE /\ cancelled' = TRUE /\ inflight' = inflight \ {c} /\ UNCHANGED callLock   \* "an active call": cancel its context
                                  /\ badCancel' = (badCancel \/ callLock # CALL \/ call.late)
                        /\ tmu' = (IF callLock = 0 THEN tmu ELSE 0)
                        /\ UNCHANGED <<deadline, armed, nextId, expired, sets, call, res>>
CbMark(c) == /\ c.pc = "mark" /\ expired' = TRUE /\ callLock' = 0 /\ tmu' = 0 /\ inflight' = inflight \ {c}
             /\ UNCHANGED <<deadline, armed, nextId, cancelled, sets, call, res, badCancel>>
(* the application's call.  CallStart: the entry check (since 939807d: under the timer mutex the deadline in force is compared    *)
(* with the clock and a passed one is recorded -- timer stopped, expired set) and, if the call may proceed, the forced call lock   *)
CallStart == /\ call.pc = "idle" /\ tmu = 0
             /\ LET late == deadline = "past"
                    rec  == "NoEntryCheck" \notin Dev /\ late /\ ~expired IN
                /\ expired' = (expired \/ rec) /\ armed' = (armed /\ ~rec)
                /\ IF expired' THEN call' = [pc |-> "done", late |-> late] /\ res' = "deadline" /\ UNCHANGED callLock
                   ELSE callLock = 0 /\ callLock' = CALL /\ call' = [pc |-> "locked", late |-> late] /\ UNCHANGED res
             /\ UNCHANGED <<deadline, inflight, nextId, cancelled, sets, tmu, badCancel>>
(* inside the lock the expired flag is looked at once more (netconn.go read()/Write); then the call does its I/O and returns *)
CallEnd == /\ call.pc = "locked" /\ callLock' = 0 /\ call' = [call EXCEPT !.pc = "done"]
           /\ res' = IF expired THEN "deadline" ELSE IF cancelled THEN "cancelled" ELSE "ok"
           /\ UNCHANGED <<deadline, armed, inflight, nextId, expired, cancelled, sets, tmu, badCancel>>
Next == (\E v \in {"none", "past", "future"} : SetDeadline(v)) \/ Fire \/ Tick
        \/ (\E c \in inflight : CbEnter(c) \/ CbCheck(c) \/ CbMark(c)) \/ CallStart \/ CallEnd
Spec == Init /\ [][Next]_vars
ExpiredOnlyWhilePast == expired => deadline = "past"          \* "... until the deadline is reset"
(* "... leaving the connection usable": a context is cancelled only for a call that was active when its deadline passed -- never *)
(* for a callback's own brief hold of the call lock, never for a call that started after the deadline had passed                *)
IdleNeverCancels == ~badCancel
(* "a deadline that passes while no call is active makes subsequent calls fail with a deadline error" *)
LateCallFails == (call.pc = "done" /\ call.late /\ sets <= 1) => res = "deadline"
=============================================================================
