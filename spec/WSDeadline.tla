------------------------------ MODULE WSDeadline ------------------------------
(* C18, the part WSNetConn takes as one step: how a NetConn deadline expires.  The timer's     *)
(* callback runs on a goroutine of its own (time.AfterFunc), so between "the timer fired" and  *)
(* "the callback ran" the application can reset the deadline.  The statement is "calls fail    *)
(* with a deadline error UNTIL THE DEADLINE IS RESET": the direction may be marked expired      *)
(* only while the deadline now in force has passed, and an idle expiry never touches the call   *)
(* context.  Dev "StaleExpiry" is the code before its fix: commit (c0e0810): the callback did not *)
(* look at the deadline in force; "NoTimerMutex" the code before 1318a05: two callbacks overlap  *)
(* and the second takes the first one's brief hold of the call lock for an active call.          *)
EXTENDS Integers, FiniteSets, TLC
CONSTANTS Dev, MaxSets
VARIABLES deadline,    \* the deadline in force: "none", "past" or "future"
          armed,       \* the runtime timer is set and has not fired
          inflight,    \* callbacks started by the runtime that have not finished: a set of [id, pc]
          nextId, expired, cancelled, callLock, sets, tmu
vars == <<deadline, armed, inflight, nextId, expired, cancelled, callLock, sets, tmu>>
Init == /\ deadline = "none" /\ armed = FALSE /\ inflight = {} /\ nextId = 1 /\ expired = FALSE /\ cancelled = FALSE
        /\ callLock = 0 /\ sets = 0 /\ tmu = 0
(* SetReadDeadline / SetWriteDeadline (under the timer mutex since the fix; the mutex is free whenever no callback is inside) *)
SetDeadline(v) == /\ sets < MaxSets /\ sets' = sets + 1
                  /\ ("StaleExpiry" \in Dev \/ tmu = 0)
                  /\ deadline' = v /\ expired' = FALSE /\ armed' = (v # "none")
                  /\ UNCHANGED <<inflight, nextId, cancelled, callLock, tmu>>
(* the runtime: a timer set for a time that has passed fires and starts the callback *)
Fire == /\ armed /\ deadline = "past" /\ armed' = FALSE
        /\ inflight' = inflight \cup {[id |-> nextId, pc |-> "start"]} /\ nextId' = nextId + 1
        /\ UNCHANGED <<deadline, expired, cancelled, callLock, sets, tmu>>
(* the callback, one step per critical section: timer mutex, staleness check, tryLock of the call lock, mark, release *)
CbEnter(c) == /\ c.pc = "start" /\ ("NoTimerMutex" \in Dev \/ tmu = 0) /\ tmu' = c.id
              /\ inflight' = (inflight \ {c}) \cup {[c EXCEPT !.pc = "check"]}
              /\ UNCHANGED <<deadline, armed, nextId, expired, cancelled, callLock, sets>>
CbCheck(c) == /\ c.pc = "check"
              /\ IF "StaleExpiry" \notin Dev /\ deadline # "past"
                   THEN /\ inflight' = inflight \ {c} /\ tmu' = 0
                        /\ armed' = (deadline = "future")                 \* a deadline still ahead is re-armed
                        /\ UNCHANGED <<deadline, nextId, expired, cancelled, callLock, sets>>
                   ELSE /\ IF callLock = 0
                             THEN callLock' = c.id /\ inflight' = (inflight \ {c}) \cup {[c EXCEPT !.pc = "mark"]} /\ UNCHANGED cancelled
                             ELSE cancelled' = TRUE /\ inflight' = inflight \ {c} /\ UNCHANGED callLock   \* "an active call": cancel its context
                        /\ tmu' = (IF callLock = 0 THEN tmu ELSE 0)
                        /\ UNCHANGED <<deadline, armed, nextId, expired, sets>>
CbMark(c) == /\ c.pc = "mark" /\ expired' = TRUE /\ callLock' = 0 /\ tmu' = 0 /\ inflight' = inflight \ {c}
             /\ UNCHANGED <<deadline, armed, nextId, cancelled, sets>>
Next == (\E v \in {"none", "past", "future"} : SetDeadline(v)) \/ Fire
        \/ \E c \in inflight : CbEnter(c) \/ CbCheck(c) \/ CbMark(c)
Spec == Init /\ [][Next]_vars
(* no call is ever active in this model, so: *)
ExpiredOnlyWhilePast == expired => deadline = "past"          \* "... until the deadline is reset"
IdleNeverCancels == ~cancelled                                  \* "... leaving the connection usable"
=============================================================================
