------------------------------ MODULE WSDeadline ------------------------------
(* C18, the part WSNetConn takes as one step: how a NetConn deadline expires.  The timer's     *)
(* callback runs on a goroutine of its own (time.AfterFunc), so between "the timer fired" and  *)
(* "the callback ran" the application can reset the deadline.  The statement is "calls fail    *)
(* with a deadline error UNTIL THE DEADLINE IS RESET": the direction may be marked expired      *)
(* only while the deadline now in force has passed, and an idle expiry never touches the call   *)
(* context.  Dev "StaleExpiry" is the code before its fix: commit (c0e0810): the callback did not *)
(* look at the deadline in force; "NoTimerMutex" the code before 1318a05: two callbacks overlap  *)
(* and the second takes the first one's brief hold of the call lock for an active call.          *)
(* Since 939807d a Read/Write call is part of the picture: a call that STARTS after its deadline has passed must fail with a     *)
(* deadline error and leave the connection usable, whether or not the callback goroutine has run yet.  The call records the       *)
(* expiry itself (under the timer mutex, before it takes the call lock) and the callback leaves a recorded expiry alone.  Dev     *)
(* "NoEntryCheck" is the code before that fix: the call looked at the expired flag only -- it could go through, or be taken by    *)
(* the late callback for a call that was active when the deadline passed.                                                          *)
(* One direction (read or write) of one adapter; one application goroutine makes calls in that direction (net.Conn allows more,   *)
(* the byte-stream property is about one), any goroutine sets deadlines.  The call is modelled at the grain of the code          *)
(* (netconn.go Read/Write): entry check under the timer mutex | forced call lock | the expired flag looked at once more inside   *)
(* the lock | the I/O under the direction's context | deferred unlock -- one action each, because the callback and SetDeadline   *)
(* interleave with every one of them, and because TraceDeadline.tla replays recorded executions through these very actions.      *)
EXTENDS Integers, FiniteSets, TLC
CONSTANTS Dev, MaxSets, MaxCalls
VARIABLES deadline,    \* the deadline in force: "none", "past", "future" (will pass: Tick) or "far" (does not pass within the behaviour)
          armed,       \* the runtime timer is set and has not fired
          inflight,    \* callbacks started by the runtime that have not finished: a set of [id, pc]
          nextId, expired, cancelled, callLock, sets, tmu,
          call,        \* the application's Read/Write: [pc |-> "idle" | "entered" | "locked" | "checked" | "ret" | "done", late |-> it started
                       \* after the deadline had passed, n |-> calls made so far]
          res,         \* what the last call returned: "none", "deadline", "ok", "cancelled"
          badCancel    \* a callback cancelled the context of a call that had started AFTER the deadline passed
vars == <<deadline, armed, inflight, nextId, expired, cancelled, callLock, sets, tmu, call, res, badCancel>>
CALL == -1             \* holder id of the call lock when the application's call holds it
Deadlines == {"none", "past", "future", "far"}
Init == /\ deadline = "none" /\ armed = FALSE /\ inflight = {} /\ nextId = 1 /\ expired = FALSE /\ cancelled = FALSE
        /\ callLock = 0 /\ sets = 0 /\ tmu = 0 /\ call = [pc |-> "idle", late |-> FALSE, n |-> 0] /\ res = "none" /\ badCancel = FALSE
(* SetReadDeadline / SetWriteDeadline (under the timer mutex since the fix; the mutex is free whenever no callback is inside) *)
SetDeadline(v) == /\ sets < MaxSets /\ sets' = sets + 1
                  /\ ("StaleExpiry" \in Dev \/ tmu = 0)
                  /\ deadline' = v /\ expired' = FALSE /\ armed' = (v # "none")
                  /\ UNCHANGED <<inflight, nextId, cancelled, callLock, tmu, call, res, badCancel>>
(* the runtime: a timer set for a time that has passed fires and starts the callback *)
Fire == /\ armed /\ deadline = "past" /\ armed' = FALSE
        /\ inflight' = inflight \cup {[id |-> nextId, pc |-> "start"]} /\ nextId' = nextId + 1
        /\ UNCHANGED <<deadline, expired, cancelled, callLock, sets, tmu, call, res, badCancel>>
(* time passes: a deadline that was ahead is now behind *)
Tick == /\ deadline = "future" /\ deadline' = "past"
        /\ UNCHANGED <<armed, inflight, nextId, expired, cancelled, callLock, sets, tmu, call, res, badCancel>>
(* the callback, one step per critical section: timer mutex, staleness check, tryLock of the call lock, mark, release *)
CbEnter(c) == /\ c.pc = "start" /\ ("NoTimerMutex" \in Dev \/ tmu = 0) /\ tmu' = c.id
              /\ inflight' = (inflight \ {c}) \cup {[c EXCEPT !.pc = "check"]}
              /\ UNCHANGED <<deadline, armed, nextId, expired, cancelled, callLock, sets, call, res, badCancel>>
CbStaleCond == ("StaleExpiry" \notin Dev /\ deadline # "past") \/ ("NoEntryCheck" \notin Dev /\ expired)   \* stale, or already recorded
CbStale(c) == /\ c.pc = "check" /\ CbStaleCond
              /\ inflight' = inflight \ {c} /\ tmu' = 0
              /\ armed' = IF deadline \in {"future", "far"} THEN TRUE ELSE armed     \* a deadline still ahead is re-armed
              /\ UNCHANGED <<deadline, nextId, expired, cancelled, callLock, sets, call, res, badCancel>>
CbIdle(c) == /\ c.pc = "check" /\ ~CbStaleCond /\ callLock = 0
             /\ callLock' = c.id /\ inflight' = (inflight \ {c}) \cup {[c EXCEPT !.pc = "mark"]}
             /\ UNCHANGED <<deadline, armed, nextId, expired, cancelled, sets, tmu, call, res, badCancel>>
CbActive(c) == /\ c.pc = "check" /\ ~CbStaleCond /\ callLock # 0
               /\ cancelled' = TRUE /\ inflight' = inflight \ {c} /\ tmu' = 0         \* "an active call": cancel its context
               /\ badCancel' = (badCancel \/ callLock # CALL \/ call.late)
               /\ UNCHANGED <<deadline, armed, nextId, expired, callLock, sets, call, res>>
CbCheck(c) == CbStale(c) \/ CbIdle(c) \/ CbActive(c)
CbMark(c) == /\ c.pc = "mark" /\ expired' = TRUE /\ callLock' = 0 /\ tmu' = 0 /\ inflight' = inflight \ {c}
             /\ UNCHANGED <<deadline, armed, nextId, cancelled, sets, call, res, badCancel>>
(* the application's call.  CallEntry: the entry check (since 939807d: under the timer mutex the deadline in force is compared    *)
(* with the clock and a passed one is recorded -- timer stopped, expired set)                                                     *)
CallEntry == /\ call.pc \in {"idle", "done"} /\ call.n < MaxCalls /\ tmu = 0
             /\ LET late == deadline = "past"
                    rec  == "NoEntryCheck" \notin Dev /\ late /\ ~expired IN
                /\ expired' = (expired \/ rec) /\ armed' = (armed /\ ~rec)
                /\ IF expired' /\ "NoEntryCheck" \notin Dev
                     THEN call' = [pc |-> "done", late |-> late, n |-> call.n + 1] /\ res' = "deadline"
                     ELSE call' = [pc |-> "entered", late |-> late, n |-> call.n + 1] /\ res' = "none"
             /\ UNCHANGED <<deadline, inflight, nextId, cancelled, callLock, sets, tmu, badCancel>>
(* forceLock: waits for a callback that holds the call lock for its brief marking *)
CallLock == /\ call.pc = "entered" /\ callLock = 0 /\ callLock' = CALL /\ call' = [call EXCEPT !.pc = "locked"]
            /\ UNCHANGED <<deadline, armed, inflight, nextId, expired, cancelled, sets, tmu, res, badCancel>>
(* inside the lock the expired flag is looked at once more (netconn.go read() -- once per message it opens -- and Write) *)
CallCheck == /\ call.pc \in {"locked", "checked"}
             /\ IF expired THEN call' = [call EXCEPT !.pc = "ret"] /\ res' = "deadline"
                ELSE call' = [call EXCEPT !.pc = "checked"] /\ UNCHANGED res
             /\ UNCHANGED <<deadline, armed, inflight, nextId, expired, cancelled, callLock, sets, tmu, badCancel>>
(* the I/O itself, under the direction's context: it fails if a callback cancelled that context (the connection is closed with it) *)
CallEnd == /\ call.pc = "checked" /\ call' = [call EXCEPT !.pc = "ret"]
           /\ res' = IF cancelled THEN "cancelled" ELSE "ok"
           /\ UNCHANGED <<deadline, armed, inflight, nextId, expired, cancelled, callLock, sets, tmu, badCancel>>
CallUnlock == /\ call.pc = "ret" /\ callLock' = 0 /\ call' = [call EXCEPT !.pc = "done"]
              /\ UNCHANGED <<deadline, armed, inflight, nextId, expired, cancelled, sets, tmu, res, badCancel>>
Next == (\E v \in Deadlines : SetDeadline(v)) \/ Fire \/ Tick
        \/ (\E c \in inflight : CbEnter(c) \/ CbCheck(c) \/ CbMark(c))
        \/ CallEntry \/ CallLock \/ CallCheck \/ CallEnd \/ CallUnlock
Spec == Init /\ [][Next]_vars
ExpiredOnlyWhilePast == expired => deadline = "past"          \* "... until the deadline is reset"
(* "... leaving the connection usable": a context is cancelled only for a call that was active when its deadline passed -- never *)
(* for a callback's own brief hold of the call lock, never for a call that started after the deadline had passed                *)
IdleNeverCancels == ~badCancel
(* "a deadline that passes while no call is active makes subsequent calls fail with a deadline error": a call that started after *)
(* its deadline had passed returns that error unless the deadline was reset under it                                             *)
LateCallFails == (call.pc \in {"ret", "done"} /\ call.late /\ sets <= 1) => res = "deadline"
(* a deadline error is only ever reported for a deadline that has passed and has not been reset since the call looked *)
DeadlineErrorOnlyWhenPassed == [][(res' = "deadline" /\ res # "deadline") => deadline = "past"]_vars
(* the call lock is held by the call exactly while it is between its lock and its unlock *)
CallLockConsistent == (callLock = CALL) <=> (call.pc \in {"locked", "checked", "ret"})
MutexHolders == /\ (tmu # 0 /\ "NoTimerMutex" \notin Dev => \E c \in inflight : c.id = tmu /\ c.pc \in {"check", "mark"})
                /\ (callLock \notin {0, CALL} => \E c \in inflight : c.id = callLock /\ c.pc = "mark")
=============================================================================
