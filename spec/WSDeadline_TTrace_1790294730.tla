---- MODULE WSDeadline_TTrace_1790294730 ----
EXTENDS WSDeadline, Sequences, TLCExt, Toolbox, Naturals, TLC

_expression ==
    LET WSDeadline_TEExpression == INSTANCE WSDeadline_TEExpression
    IN WSDeadline_TEExpression!expression
----

_trace ==
    LET WSDeadline_TETrace == INSTANCE WSDeadline_TETrace
    IN WSDeadline_TETrace!trace
----

_inv ==
    ~(
        TLCGet("level") = Len(_TETrace)
        /\
        call = ([pc |-> "ret", late |-> TRUE, n |-> 1])
        /\
        res = ("ok")
        /\
        nextId = (1)
        /\
        expired = (FALSE)
        /\
        sets = (1)
        /\
        armed = (TRUE)
        /\
        cancelled = (FALSE)
        /\
        callLock = (-1)
        /\
        deadline = ("past")
        /\
        tmu = (0)
        /\
        badCancel = (FALSE)
        /\
        inflight = ({})
    )
----

_init ==
    /\ cancelled = _TETrace[1].cancelled
    /\ tmu = _TETrace[1].tmu
    /\ sets = _TETrace[1].sets
    /\ badCancel = _TETrace[1].badCancel
    /\ callLock = _TETrace[1].callLock
    /\ nextId = _TETrace[1].nextId
    /\ inflight = _TETrace[1].inflight
    /\ res = _TETrace[1].res
    /\ armed = _TETrace[1].armed
    /\ deadline = _TETrace[1].deadline
    /\ expired = _TETrace[1].expired
    /\ call = _TETrace[1].call
----

_next ==
    /\ \E i,j \in DOMAIN _TETrace:
        /\ \/ /\ j = i + 1
              /\ i = TLCGet("level")
        /\ cancelled  = _TETrace[i].cancelled
        /\ cancelled' = _TETrace[j].cancelled
        /\ tmu  = _TETrace[i].tmu
        /\ tmu' = _TETrace[j].tmu
        /\ sets  = _TETrace[i].sets
        /\ sets' = _TETrace[j].sets
        /\ badCancel  = _TETrace[i].badCancel
        /\ badCancel' = _TETrace[j].badCancel
        /\ callLock  = _TETrace[i].callLock
        /\ callLock' = _TETrace[j].callLock
        /\ nextId  = _TETrace[i].nextId
        /\ nextId' = _TETrace[j].nextId
        /\ inflight  = _TETrace[i].inflight
        /\ inflight' = _TETrace[j].inflight
        /\ res  = _TETrace[i].res
        /\ res' = _TETrace[j].res
        /\ armed  = _TETrace[i].armed
        /\ armed' = _TETrace[j].armed
        /\ deadline  = _TETrace[i].deadline
        /\ deadline' = _TETrace[j].deadline
        /\ expired  = _TETrace[i].expired
        /\ expired' = _TETrace[j].expired
        /\ call  = _TETrace[i].call
        /\ call' = _TETrace[j].call

\* Uncomment the ASSUME below to write the states of the error trace
\* to the given file in Json format. Note that you can pass any tuple
\* to `JsonSerialize`. For example, a sub-sequence of _TETrace.
    \* ASSUME
    \*     LET J == INSTANCE Json
    \*         IN J!JsonSerialize("WSDeadline_TTrace_1790294730.json", _TETrace)

=============================================================================

 Note that you can extract this module `WSDeadline_TEExpression`
  to a dedicated file to reuse `expression` (the module in the 
  dedicated `WSDeadline_TEExpression.tla` file takes precedence 
  over the module `WSDeadline_TEExpression` below).

---- MODULE WSDeadline_TEExpression ----
EXTENDS WSDeadline, Sequences, TLCExt, Toolbox, Naturals, TLC

expression == 
    [
        \* To hide variables of the `WSDeadline` spec from the error trace,
        \* remove the variables below.  The trace will be written in the order
        \* of the fields of this record.
        cancelled |-> cancelled
        ,tmu |-> tmu
        ,sets |-> sets
        ,badCancel |-> badCancel
        ,callLock |-> callLock
        ,nextId |-> nextId
        ,inflight |-> inflight
        ,res |-> res
        ,armed |-> armed
        ,deadline |-> deadline
        ,expired |-> expired
        ,call |-> call
        
        \* Put additional constant-, state-, and action-level expressions here:
        \* ,_stateNumber |-> _TEPosition
        \* ,_cancelledUnchanged |-> cancelled = cancelled'
        
        \* Format the `cancelled` variable as Json value.
        \* ,_cancelledJson |->
        \*     LET J == INSTANCE Json
        \*     IN J!ToJson(cancelled)
        
        \* Lastly, you may build expressions over arbitrary sets of states by
        \* leveraging the _TETrace operator.  For example, this is how to
        \* count the number of times a spec variable changed up to the current
        \* state in the trace.
        \* ,_cancelledModCount |->
        \*     LET F[s \in DOMAIN _TETrace] ==
        \*         IF s = 1 THEN 0
        \*         ELSE IF _TETrace[s].cancelled # _TETrace[s-1].cancelled
        \*             THEN 1 + F[s-1] ELSE F[s-1]
        \*     IN F[_TEPosition - 1]
    ]

=============================================================================



Parsing and semantic processing can take forever if the trace below is long.
 In this case, it is advised to uncomment the module below to deserialize the
 trace from a generated binary file.

\*
\*---- MODULE WSDeadline_TETrace ----
\*EXTENDS WSDeadline, IOUtils, TLC
\*
\*trace == IODeserialize("WSDeadline_TTrace_1790294730.bin", TRUE)
\*
\*=============================================================================
\*

---- MODULE WSDeadline_TETrace ----
EXTENDS WSDeadline, TLC

trace == 
    <<
    ([call |-> [pc |-> "idle", late |-> FALSE, n |-> 0],res |-> "none",nextId |-> 1,expired |-> FALSE,sets |-> 0,armed |-> FALSE,cancelled |-> FALSE,callLock |-> 0,deadline |-> "none",tmu |-> 0,badCancel |-> FALSE,inflight |-> {}]),
    ([call |-> [pc |-> "idle", late |-> FALSE, n |-> 0],res |-> "none",nextId |-> 1,expired |-> FALSE,sets |-> 1,armed |-> TRUE,cancelled |-> FALSE,callLock |-> 0,deadline |-> "past",tmu |-> 0,badCancel |-> FALSE,inflight |-> {}]),
    ([call |-> [pc |-> "entered", late |-> TRUE, n |-> 1],res |-> "none",nextId |-> 1,expired |-> FALSE,sets |-> 1,armed |-> TRUE,cancelled |-> FALSE,callLock |-> 0,deadline |-> "past",tmu |-> 0,badCancel |-> FALSE,inflight |-> {}]),
    ([call |-> [pc |-> "locked", late |-> TRUE, n |-> 1],res |-> "none",nextId |-> 1,expired |-> FALSE,sets |-> 1,armed |-> TRUE,cancelled |-> FALSE,callLock |-> -1,deadline |-> "past",tmu |-> 0,badCancel |-> FALSE,inflight |-> {}]),
    ([call |-> [pc |-> "checked", late |-> TRUE, n |-> 1],res |-> "none",nextId |-> 1,expired |-> FALSE,sets |-> 1,armed |-> TRUE,cancelled |-> FALSE,callLock |-> -1,deadline |-> "past",tmu |-> 0,badCancel |-> FALSE,inflight |-> {}]),
    ([call |-> [pc |-> "ret", late |-> TRUE, n |-> 1],res |-> "ok",nextId |-> 1,expired |-> FALSE,sets |-> 1,armed |-> TRUE,cancelled |-> FALSE,callLock |-> -1,deadline |-> "past",tmu |-> 0,badCancel |-> FALSE,inflight |-> {}])
    >>
----


=============================================================================

---- CONFIG WSDeadline_TTrace_1790294730 ----
CONSTANTS
    Dev = { "NoEntryCheck" }
    MaxSets = 3
    MaxCalls = 2

INVARIANT
    _inv

CHECK_DEADLOCK
    \* CHECK_DEADLOCK off because of PROPERTY or INVARIANT above.
    FALSE

INIT
    _init

NEXT
    _next

CONSTANT
    _TETrace <- _trace

ALIAS
    _expression
=============================================================================
\* Generated on Fri Sep 25 00:05:31 UTC 2026