------------------------------- MODULE WSFrame -------------------------------
(* RFC 6455 5.2 frame headers over byte sequences, Close bodies (5.5.1, 7.4), and the      *)
(* grammar of the frame stream ONE endpoint may emit (5.4, 5.5, 5.5.1; RFC 7692 6).        *)
EXTENDS WSBase

B2I(b) == IF b THEN 1 ELSE 0

(* Header record: fin, rsv1..3, op, masked, len, key (sequence of 4 bytes; <<>> if unmasked) *)
EncodeLen(n, mbit) ==
  IF n <= 125 THEN << mbit + n >>
  ELSE IF n <= 65535 THEN << mbit + 126, n \div 256, n % 256 >>
  ELSE << mbit + 127, 0, 0, 0, 0, (n \div 16777216) % 256, (n \div 65536) % 256, (n \div 256) % 256, n % 256 >>

EncodeHeader(h) ==
  << 128 * B2I(h.fin) + 64 * B2I(h.rsv1) + 32 * B2I(h.rsv2) + 16 * B2I(h.rsv3) + h.op >>
  \o EncodeLen(h.len, 128 * B2I(h.masked))
  \o (IF h.masked THEN h.key ELSE <<>>)

(* DecodeHeader(b): the header at the start of byte sequence b.  Result .ok = FALSE if b is *)
(* too short; .minimal tells whether the length used the shortest encoding; .big = TRUE if  *)
(* the 64-bit length does not fit the model's integers (>= 2^31).                            *)
DecodeHeader(b) ==
  IF Len(b) < 2 THEN [ok |-> FALSE]
  ELSE
    LET b0 == b[1]  b1 == b[2]
        l7 == b1 % 128
        masked == b1 >= 128
        ext == IF l7 = 126 THEN 2 ELSE IF l7 = 127 THEN 8 ELSE 0
        need == 2 + ext + (IF masked THEN 4 ELSE 0)
    IN IF Len(b) < need THEN [ok |-> FALSE]
       ELSE
         LET big == l7 = 127 /\ (b[3] # 0 \/ b[4] # 0 \/ b[5] # 0 \/ b[6] # 0 \/ b[7] >= 128)
             len == IF l7 < 126 THEN l7
                    ELSE IF l7 = 126 THEN b[3] * 256 + b[4]
                    ELSE IF big THEN 0
                    ELSE b[7] * 16777216 + b[8] * 65536 + b[9] * 256 + b[10]
         IN [ok |-> TRUE, n |-> need, big |-> big,
             h |-> [fin |-> b0 >= 128, rsv1 |-> (b0 \div 64) % 2 = 1, rsv2 |-> (b0 \div 32) % 2 = 1,
                    rsv3 |-> (b0 \div 16) % 2 = 1, op |-> b0 % 16, masked |-> masked, len |-> len,
                    key |-> IF masked THEN SubSeq(b, need - 3, need) ELSE <<>>],
             minimal |-> ~big /\ ((l7 < 126) \/ (l7 = 126 /\ len > 125) \/ (l7 = 127 /\ len > 65535))]

(* Close body: empty, or 2-byte big-endian code followed by the reason *)
EncodeCloseBody(code, reason) == << code \div 256, code % 256 >> \o reason
ParseCloseBody(p) ==
  IF Len(p) = 0 THEN [ok |-> TRUE, code |-> 1005, rlen |-> 0]
  ELSE IF Len(p) = 1 THEN [ok |-> FALSE]
  ELSE LET c == p[1] * 256 + p[2] IN
       IF ValidWireCode(c) THEN [ok |-> TRUE, code |-> c, rlen |-> Len(p) - 2] ELSE [ok |-> FALSE]

-----------------------------------------------------------------------------
(* WireStep: grammar of a sender's frame stream.                                           *)
(*  st   : [inMsg : BOOLEAN, closeSent : BOOLEAN]                                          *)
(*  h    : decoded header;  cl : for Close frames [empty, codeOK, rlen], else anything     *)
(*  role : "client" | "server" (of the sender);  flate : permessage-deflate negotiated      *)
(* Result: [ok |-> TRUE, st |-> next] or [ok |-> FALSE, why |-> reason]                     *)
W0 == [inMsg |-> FALSE, closeSent |-> FALSE]
Bad(why) == [ok |-> FALSE, why |-> why]
WireStep(st, h, minimal, cl, role, flate) ==
  IF h.masked # (role = "client") THEN Bad("masking-wrong-for-role")
  ELSE IF h.rsv2 \/ h.rsv3 THEN Bad("rsv2-or-rsv3-set")
  ELSE IF ~minimal THEN Bad("length-not-minimally-encoded")
  ELSE IF h.op \notin KnownOps THEN Bad("unknown-opcode")
  ELSE IF IsControl(h.op) THEN
         IF ~h.fin THEN Bad("fragmented-control-frame")
         ELSE IF h.len > MaxControlPayload THEN Bad("control-frame-longer-than-125")
         ELSE IF h.rsv1 THEN Bad("rsv1-on-control-frame")
         ELSE IF h.op = OpClose THEN
                IF st.closeSent THEN Bad("second-close-frame")
                ELSE IF ~cl.empty /\ (h.len < 2 \/ ~cl.codeOK) THEN Bad("close-body-not-sendable")
                ELSE [ok |-> TRUE, st |-> [st EXCEPT !.closeSent = TRUE]]
         ELSE [ok |-> TRUE, st |-> st]
  ELSE \* data frame
    IF st.closeSent THEN Bad("data-frame-after-close-frame")
    ELSE IF h.op = OpCont THEN
           IF ~st.inMsg THEN Bad("continuation-without-message")
           ELSE IF h.rsv1 THEN Bad("rsv1-on-continuation")
           ELSE [ok |-> TRUE, st |-> [st EXCEPT !.inMsg = ~h.fin]]
    ELSE IF st.inMsg THEN Bad("new-message-inside-message")
    ELSE IF h.rsv1 /\ ~flate THEN Bad("rsv1-without-negotiated-deflate")
    ELSE [ok |-> TRUE, st |-> [st EXCEPT !.inMsg = ~h.fin]]

=============================================================================
