------------------------------ MODULE WSFrameMC ------------------------------
EXTENDS WSFrame
(* Model checking of the codec: DecodeHeader inverts EncodeHeader on the boundary lengths,  *)
(* all flag combinations and both masking settings; the encoding is minimal.               *)
BoundaryLens == {0, 1, 125, 126, 127, 255, 256, 65535, 65536, 65537, 16777215, 16777216, 2147483647}
Headers == [fin : BOOLEAN, rsv1 : BOOLEAN, rsv2 : BOOLEAN, rsv3 : BOOLEAN, op : 0..15, masked : {FALSE}, len : BoundaryLens, key : {<<>>}]
           \cup [fin : BOOLEAN, rsv1 : BOOLEAN, rsv2 : BOOLEAN, rsv3 : BOOLEAN, op : 0..15, masked : {TRUE}, len : BoundaryLens, key : {<<1, 2, 3, 255>>}]
VARIABLE hdr
HInit == hdr \in Headers
HNext == UNCHANGED hdr
RoundTrip == LET d == DecodeHeader(EncodeHeader(hdr)) IN d.ok /\ d.h = hdr /\ d.minimal /\ d.n = Len(EncodeHeader(hdr))
Truncated == \A k \in 0..(Len(EncodeHeader(hdr)) - 1) : ~DecodeHeader(SubSeq(EncodeHeader(hdr), 1, k)).ok
EncLenOK == Len(EncodeHeader(hdr)) = 2 + (IF hdr.len <= 125 THEN 0 ELSE IF hdr.len <= 65535 THEN 2 ELSE 8) + (IF hdr.masked THEN 4 ELSE 0)
=============================================================================
