----------------------------- MODULE WSHandshake -----------------------------
(* The opening handshake (RFC 6455 4.1, 4.2, 10.2; RFC 7692 5, 7) as pure decision           *)
(* operators over structured requests and responses:                                        *)
(*   AcceptDecision  which requests a server upgrades and how it answers            (C11)   *)
(*   AuthDecision    origin check with host patterns                                (C12)   *)
(*   VerifyResponse  which responses a client accepts                               (C13)   *)
(*   ServerSelect / ClientVerify / Agree   permessage-deflate negotiation           (C14)   *)
(* Header values are sequences of lines, each a sequence of tokens, so multi-line and       *)
(* multi-token headers are first class.  Hash and base64 are uninterpreted: keys are        *)
(* abstract variants and the harness computes SHA-1 independently.                          *)
EXTENDS Integers, Sequences, FiniteSets, TLC

(* ---- case folding over the finite token alphabet ---- *)
Lower(t) == CASE t = "Upgrade" -> "upgrade" [] t = "UPGRADE" -> "upgrade" [] t = "WebSocket" -> "websocket"
              [] t = "WEBSOCKET" -> "websocket" [] t = "A" -> "a" [] t = "B" -> "b" [] t = "C" -> "c" [] OTHER -> t
EqFold(a, b) == Lower(a) = Lower(b)
Tokens(lines) == UNION { {l[i] : i \in 1..Len(l)} : l \in {lines[j] : j \in 1..Len(lines)} }
HasToken(lines, t) == \E x \in Tokens(lines) : EqFold(x, t)

(* ---- C11: Accept ---- *)
(* key variants: which of them are "exactly one header that decodes to 16 bytes" *)
KeyOK(k) == k \in {"ok16", "ok16spaces", "ok16noncanon"}    \* noncanon: non-zero padding bits, still decodes to 16 bytes
ProtoOK(p) == p \in {"1.1", "2.0"}
RequestValid(r) ==
  /\ r.method = "GET" /\ ProtoOK(r.proto)
  /\ HasToken(r.conn, "upgrade") /\ HasToken(r.upg, "websocket")
  /\ r.version = "13" /\ KeyOK(r.key)
(* first server-preferred protocol that the client offered (case-insensitively); the client's spelling is returned *)
RECURSIVE SelectSub(_, _)
SelectSub(supported, offered) ==
  IF supported = <<>> THEN ""
  ELSE LET hits == {i \in 1..Len(offered) : EqFold(offered[i], Head(supported))} IN
       IF hits # {} THEN offered[CHOOSE i \in hits : \A j \in hits : i <= j]
       ELSE SelectSub(Tail(supported), offered)
AcceptDecision(r) ==
  IF RequestValid(r) THEN [upgrade |-> TRUE, sub |-> SelectSub(r.supported, r.offered)]
  ELSE [upgrade |-> FALSE, sub |-> ""]

(* ---- C12: origin ---- *)
(* Host names are tuples of tokens; "*" matches any run of tokens, "?" exactly one character *)
(* (only "." is a one-character token); see the harness for the concrete words.              *)
LowerS(s) == [i \in 1..Len(s) |-> Lower(s[i])]
RECURSIVE Glob(_, _)
Glob(p, s) ==
  IF p = <<>> THEN s = <<>>
  ELSE IF Head(p) = "*" THEN \E k \in 0..Len(s) : Glob(Tail(p), SubSeq(s, k+1, Len(s)))
  ELSE IF Head(p) = "?" THEN s # <<>> /\ Head(s) \in {".", ":"} /\ Glob(Tail(p), Tail(s))
  ELSE s # <<>> /\ Head(s) = Head(p) /\ Glob(Tail(p), Tail(s))
BadPattern(p) == \E i \in 1..Len(p) : p[i] = "["
Authority(o) == IF o.form = "url" THEN [h |-> o.host, port |-> o.port] ELSE [h |-> <<>>, port |-> ""]
AuthTokens(a) == IF a.port = "" THEN a.h ELSE a.h \o <<":", a.port>>
(* "accept" / "refuse" are required by the property; "open" marks what it leaves open:      *)
(* origins that name no host (schemeless, null, opaque) and pattern lists with a malformed  *)
(* pattern are refused or accepted at the implementation's discretion.                      *)
AuthDecision(o, rh, pats, skip) ==
  IF skip \/ o.form = "none" THEN "accept"
  ELSE IF o.form # "url" THEN "open"         \* schemeless / null / opaque values name no host (and may not even parse)
  ELSE LET a == Authority(o) IN
    IF a.h # <<>> /\ LowerS(a.h) = LowerS(rh.h) /\ a.port = rh.port THEN "accept"
    ELSE LET usable == {i \in 1..Len(pats) : \A j \in 1..i : ~BadPattern(pats[j])}
             m == \E i \in usable : Glob(LowerS(pats[i]), LowerS(AuthTokens(a))) IN
      IF m THEN "accept"
      ELSE IF a.h = <<>> THEN "open"
      ELSE "refuse"

(* ---- C14: permessage-deflate negotiation ---- *)
(* a parameter is [n |-> name, v |-> value] with v = "" for "no value"                     *)
WB == {"8", "9", "10", "11", "12", "13", "14", "15"}
ParamOK(p) ==
  \/ p.n \in {"client_no_context_takeover", "server_no_context_takeover"} /\ p.v = ""
  \/ p.n = "client_max_window_bits" /\ p.v \in WB \cup {""}
  \/ p.n = "server_max_window_bits" /\ p.v = "15"          \* the library cannot shrink its window: decline < 15
NoDup(ps) == \A i, j \in 1..Len(ps) : i # j => ps[i].n # ps[j].n
OfferOK(o) == o.name = "permessage-deflate" /\ NoDup(o.params) /\ \A i \in 1..Len(o.params) : ParamOK(o.params[i])
Has(o, n) == \E i \in 1..Len(o.params) : o.params[i].n = n
(* modes: "off", "ct" (context takeover), "nct" (no context takeover) *)
RECURSIVE ServerSelect(_, _)
ServerSelect(offers, mode) ==
  IF mode = "off" \/ offers = <<>> THEN [on |-> FALSE, cnct |-> FALSE, snct |-> FALSE]
  ELSE IF OfferOK(Head(offers))
       THEN [on |-> TRUE, cnct |-> (mode = "nct" \/ Has(Head(offers), "client_no_context_takeover")),
                          snct |-> (mode = "nct" \/ Has(Head(offers), "server_no_context_takeover"))]
       ELSE ServerSelect(Tail(offers), mode)
(* what a compliant response to `sel` looks like to the client; the client then derives its own view *)
(* client side: resp = sequence of extensions; clientMode as above                           *)
RespParamOK(p) ==
  \/ p.n \in {"client_no_context_takeover", "server_no_context_takeover"} /\ p.v = ""
  \/ p.n = "server_max_window_bits" /\ p.v \in WB
ClientVerify(resp, mode) ==
  IF resp = <<>> THEN [ok |-> TRUE, on |-> FALSE, cnct |-> FALSE, snct |-> FALSE]
  ELSE IF mode = "off" \/ Len(resp) > 1 \/ resp[1].name # "permessage-deflate" THEN [ok |-> FALSE]
  ELSE IF ~NoDup(resp[1].params) \/ \E i \in 1..Len(resp[1].params) : ~RespParamOK(resp[1].params[i]) THEN [ok |-> FALSE]
  ELSE [ok |-> TRUE, on |-> TRUE, cnct |-> (mode = "nct" \/ Has(resp[1], "client_no_context_takeover")),
                                  snct |-> (mode = "nct" \/ Has(resp[1], "server_no_context_takeover"))]
(* the client's own offer for its mode, and the server's answer as an extension list *)
ClientOffer(mode) == IF mode = "off" THEN <<>>
                     ELSE << [name |-> "permessage-deflate",
                              params |-> IF mode = "nct" THEN << [n |-> "client_no_context_takeover", v |-> ""], [n |-> "server_no_context_takeover", v |-> ""] >> ELSE <<>>] >>
Answer(sel) == IF ~sel.on THEN <<>>
               ELSE << [name |-> "permessage-deflate",
                        params |-> (IF sel.cnct THEN << [n |-> "client_no_context_takeover", v |-> ""] >> ELSE <<>>)
                                   \o (IF sel.snct THEN << [n |-> "server_no_context_takeover", v |-> ""] >> ELSE <<>>)] >>
(* Agree: whatever the two modes, library client and library server end with the same parameters *)
Modes == {"off", "ct", "nct"}
Agree == \A cm, sm \in Modes :
           LET sel == ServerSelect(ClientOffer(cm), sm)
               cv == ClientVerify(Answer(sel), cm)
           IN cv.ok /\ cv.on = sel.on /\ (sel.on => cv.cnct = sel.cnct /\ cv.snct = sel.snct)
(* a response never carries client_max_window_bits (never offered by this client) nor unknown parameters *)
ASSUME Agree

(* ---- C13: Dial ---- *)
(* what the response selects: the header's (first line's) value as a whole -- "b, a" names no requested protocol, and of the two *)
(* lines "b" / "a" (written "b|a") the first is the selection                                                                  *)
Selected(sub) == IF sub = "b|a" THEN "b" ELSE sub
SubOK(requested, sub) == LET got == Selected(sub) IN got = "" \/ \E i \in 1..Len(requested) : requested[i] = got
SubOpen(requested, sub) == LET got == Selected(sub) IN got # "" /\ ~SubOK(requested, sub) /\ \E i \in 1..Len(requested) : EqFold(requested[i], got)
VerifyResponse(resp, requested, mode) ==
  IF resp.status # 101 \/ ~HasToken(resp.conn, "upgrade") \/ ~HasToken(resp.upg, "websocket") \/ resp.accept # "correct"
  THEN "reject"
  ELSE IF SubOpen(requested, resp.sub) THEN "open"          \* case variant of a requested protocol: left open
  ELSE IF ~SubOK(requested, resp.sub) THEN "reject"
  ELSE IF ~ClientVerify(resp.ext, mode).ok THEN "reject"
  ELSE "accept"
=============================================================================
