--------------------------- MODULE WSHandshakeRows ---------------------------
(* Decision tables (binding A) for C11-C14, written by TLC from WSHandshake's operators.   *)
EXTENDS WSHandshake, Json, IOUtils, SequencesExt
Mode == IF "MODE" \in DOMAIN IOEnv THEN IOEnv.MODE ELSE "none"
Big  == IF "BIG" \in DOMAIN IOEnv THEN IOEnv.BIG = "1" ELSE FALSE
Out  == IOEnv.OUT

Seq12(T) == {<<a>> : a \in T} \cup {<<a, b>> : a \in T, b \in T}
(* ------------------------------------------------------------------ C11 *)
Base == [method |-> "GET", proto |-> "1.1", conn |-> << <<"Upgrade">> >>, upg |-> << <<"websocket">> >>,
         version |-> "13", key |-> "ok16", offered |-> <<>>, supported |-> <<>>]
ConnTok == {"upgrade", "Upgrade", "UPGRADE", "keep-alive", "notupgrade", ""}
UpgTok  == {"websocket", "WebSocket", "h2c", "websocketx"}
ConnAll == {<<>>} \cup Seq12(Seq12(ConnTok))          \* absent, or 1-2 lines of 1-2 tokens
UpgAll  == {<<>>} \cup Seq12(Seq12(UpgTok))
ConnFew == {<<>>, << <<"Upgrade">> >>, << <<"keep-alive", "Upgrade">> >>, << <<"keep-alive">>, <<"upgrade">> >>,
            << <<"keep-alive">> >>, << <<"notupgrade">> >>, << <<"">> >>, << <<"UPGRADE", "">> >>}
UpgFew  == {<<>>, << <<"websocket">> >>, << <<"h2c", "WebSocket">> >>, << <<"h2c">>, <<"websocket">> >>,
            << <<"websocketx">> >>, << <<"h2c">> >>}
Methods == {"GET", "POST", "HEAD", "get"}
Protos  == {"1.0", "1.1", "2.0"}
(* a version header that merely MENTIONS 13 -- a list, or one of several lines ("8|13": two header lines) -- is not version 13 *)
Versions == {"13", "8", "", "missing", "8, 13", "13, 14", "8|13"}
Keys == {"ok16", "ok16spaces", "short", "long", "nonb64", "missing", "twoLines", "empty", "commaJoined", "blankThenOk", "okThenBlank", "spacesThenOk", "dec14", "dec15", "dec17", "dec18", "ok16nopad", "ok16urlsafe", "ok16noncanon"}
SubTok == {"a", "b", "A"}
SubLists == {<<>>} \cup Seq12(SubTok)
C11Product == { [Base EXCEPT !.method = m, !.proto = p, !.conn = c, !.upg = u, !.version = v, !.key = k] :
                  m \in Methods, p \in Protos, c \in ConnFew, u \in UpgFew, v \in Versions, k \in Keys }
C11Conn == { [Base EXCEPT !.conn = c] : c \in ConnAll }
C11Upg  == { [Base EXCEPT !.upg = u] : u \in UpgAll }
C11Sub  == { [Base EXCEPT !.offered = o, !.supported = s] : o \in SubLists, s \in SubLists }
C11Set == (IF Big THEN C11Product ELSE { r \in C11Product : (r.method \in {"GET", "POST"} /\ r.proto # "2.0") \/ r.key = "ok16" })
          \cup C11Conn \cup C11Upg \cup C11Sub
C11Rows == SetToSeq({ [req |-> r, exp |-> AcceptDecision(r)] : r \in C11Set })

(* ------------------------------------------------------------------ C12 *)
ReqHosts == { [h |-> <<"a",".","c">>, port |-> ""], [h |-> <<"a",".","c">>, port |-> "8080"], [h |-> <<"A",".","c">>, port |-> ""] }
(* IPv6 literal hosts: brackets are glob-special, colons look like ports *)
ReqHosts6 == { [h |-> <<"[::1]">>, port |-> "8080"], [h |-> <<"[2001:db8::1]">>, port |-> ""] }
Hosts == { <<"a",".","c">>, <<"A",".","c">>, <<"b",".","a",".","c">>, <<"b","a",".","c">>,
           <<"a",".","c",".","b",".","c">>, <<"b",".","c">>, <<"a",".","c",".">> }
Hosts6 == { <<"[::1]">>, <<"[2001:db8::1]">>, <<"1">>, <<"d">>, <<"a",".","c">> }
Origins ==
  {[form |-> "none"]} \cup
  [form : {"url"}, scheme : {"http", "https", "chrome-extension"}, userinfo : {"", "user", "REQHOST"},
   host : Hosts, port : {"", "8080"}, tail : {"", "/", "/p/REQHOST", "?q=REQHOST", "#REQHOST", "?@REQHOST", "#@REQHOST", "/@REQHOST", "?x=1#@REQHOST"}] \cup
  [form : {"schemeless", "opaque"}, host : Hosts] \cup {[form |-> "null"]}
Patterns == { <<>>, << <<"a",".","c">> >>, << <<"*",".","a",".","c">> >>, << <<"*","a",".","c">> >>, << <<"b",".","c">> >>,
              << <<"*">> >>, << <<"*",".","c">> >>, << <<"?",".","c">> >>, << <<"[">> >>, << <<"*",".","a",".","c">>, <<"b",".","c">> >>,
              << <<"b",".","c",":","8080">> >>, << <<"B",".","C">> >> }
Origins6 == [form : {"url"}, scheme : {"http"}, userinfo : {""}, host : Hosts6, port : {"", "8080"}, tail : {"", "/"}]
C12Rows == SetToSeq({ [o |-> o, rh |-> rh, pats |-> p, skip |-> s, exp |-> AuthDecision(o, rh, p, s)] :
                        o \in Origins, rh \in ReqHosts, p \in Patterns, s \in BOOLEAN })
           \o SetToSeq({ [o |-> o, rh |-> rh, pats |-> p, skip |-> s, exp |-> AuthDecision(o, rh, p, s)] :
                        o \in Origins6, rh \in ReqHosts6, p \in Patterns, s \in BOOLEAN })

(* ------------------------------------------------------------------ C14 *)
P(n, v) == [n |-> n, v |-> v]
PMD(ps) == [name |-> "permessage-deflate", params |-> ps]
OfferAlphabet ==
  { PMD(<<>>), PMD(<<P("client_no_context_takeover", "")>>), PMD(<<P("server_no_context_takeover", "")>>),
    PMD(<<P("client_no_context_takeover", ""), P("server_no_context_takeover", "")>>),
    PMD(<<P("client_max_window_bits", "")>>), PMD(<<P("client_max_window_bits", "15")>>), PMD(<<P("client_max_window_bits", "8")>>),
    PMD(<<P("client_max_window_bits", "abc")>>), PMD(<<P("server_max_window_bits", "15")>>), PMD(<<P("server_max_window_bits", "14")>>),
    PMD(<<P("server_max_window_bits", "8")>>), PMD(<<P("server_max_window_bits", "")>>), PMD(<<P("unknown_param", "")>>),
    PMD(<<P("client_no_context_takeover", "1")>>),
    PMD(<<P("client_no_context_takeover", ""), P("client_no_context_takeover", "")>>),
    PMD(<<P("server_no_context_takeover", ""), P("server_max_window_bits", "15")>>),
    [name |-> "x-webkit-deflate-frame", params |-> <<>>], [name |-> "foo", params |-> <<P("bar", "1")>>] }
OfferLists == {<<>>} \cup {<<a>> : a \in OfferAlphabet} \cup {<<a, b>> : a \in OfferAlphabet, b \in OfferAlphabet}
              \cup (IF Big THEN {<<a, b, c>> : a \in OfferAlphabet, b \in OfferAlphabet, c \in OfferAlphabet} ELSE {})
C14SrvRows == SetToSeq({ [offers |-> o, mode |-> m, exp |-> ServerSelect(o, m)] : o \in OfferLists, m \in Modes })
RespAlphabet ==
  { <<>>, <<PMD(<<>>)>>, <<PMD(<<P("client_no_context_takeover", "")>>)>>, <<PMD(<<P("server_no_context_takeover", "")>>)>>,
    <<PMD(<<P("client_no_context_takeover", ""), P("server_no_context_takeover", "")>>)>>,
    <<PMD(<<P("server_max_window_bits", "15")>>)>>, <<PMD(<<P("server_max_window_bits", "10")>>)>>,
    <<PMD(<<P("client_max_window_bits", "")>>)>>, <<PMD(<<P("client_max_window_bits", "15")>>)>>, <<PMD(<<P("client_max_window_bits", "10")>>)>>, <<PMD(<<P("unknown_param", "")>>)>>,
    <<PMD(<<P("server_no_context_takeover", ""), P("server_no_context_takeover", "")>>)>>,
    \* the same parameter twice with DIFFERENT values is a duplicate all the same (RFC 7692 7.1)
    <<PMD(<<P("server_max_window_bits", "10"), P("server_max_window_bits", "12")>>)>>,
    <<PMD(<<P("server_max_window_bits", "15"), P("server_max_window_bits", "10")>>)>>,
    << [name |-> "x-foo", params |-> <<>>] >>, <<PMD(<<>>), PMD(<<>>)>>, << [name |-> "x-foo", params |-> <<>>], PMD(<<>>) >> }
(* a response is compliant towards THIS client's offer if it does not drop a no-takeover flag the offer carried; *)
(* others come from a non-compliant server and are outside the statement ("open")                               *)
Compliant(resp, mode) == mode # "nct" \/ resp = <<>> \/
                         (Len(resp) = 1 /\ resp[1].name = "permessage-deflate" /\ Has(resp[1], "client_no_context_takeover") /\ Has(resp[1], "server_no_context_takeover"))
C14CliRows == SetToSeq({ [resp |-> r, mode |-> m, exp |-> ClientVerify(r, m), compliant |-> Compliant(r, m)] : r \in RespAlphabet, m \in Modes })

(* ------------------------------------------------------------------ C13 *)
(* accept values: "samebytes" = another base64 spelling of the same 20 bytes (non-zero padding bits in the last sextet), "nopad" = the   *)
(* value without its "=", "twolines" = a wrong value on the first header line and the right one on the second: none IS the value        *)
RConn == {<<>>, << <<"Upgrade">> >>, << <<"upgrade">> >>, << <<"keep-alive">> >>, << <<"keep-alive", "Upgrade">> >>}
RUpg  == {<<>>, << <<"websocket">> >>, << <<"WebSocket">> >>, << <<"h2c">> >>}
C13Set == { [resp |-> [status |-> st, conn |-> c, upg |-> u, accept |-> a, sub |-> sb, ext |-> x], requested |-> rq, mode |-> m] :
                      st \in {101, 200, 400, 500}, c \in RConn, u \in RUpg, a \in {"correct", "otherkey", "missing", "casechanged", "samebytes", "nopad", "twolines"},
                      sb \in {"", "a", "b", "A", "b, a", "b|a"}, rq \in {<<>>, <<"a">>, <<"a", "b">>},
                      x \in (IF Big THEN RespAlphabet ELSE {<<>>, <<PMD(<<>>)>>, << [name |-> "x-foo", params |-> <<>>] >>, <<PMD(<<P("unknown_param", "")>>)>>,
                                               <<PMD(<<P("client_max_window_bits", "15")>>)>>, <<PMD(<<P("client_max_window_bits", "10")>>)>>, <<PMD(<<P("server_max_window_bits", "10")>>)>>,
                                               <<PMD(<<P("server_max_window_bits", "10"), P("server_max_window_bits", "12")>>)>>}),
                      m \in (IF Big THEN Modes ELSE {"off", "ct"}) }
C13Rows == SetToSeq({ [resp |-> r.resp, requested |-> r.requested, mode |-> r.mode, exp |-> VerifyResponse(r.resp, r.requested, r.mode)] : r \in C13Set })

ASSUME Mode = "c11" => /\ PrintT(<<"rows", Len(C11Rows)>>) /\ ndJsonSerialize(Out, C11Rows)
ASSUME Mode = "c12" => /\ PrintT(<<"rows", Len(C12Rows)>>) /\ ndJsonSerialize(Out, C12Rows)
ASSUME Mode = "c13" => /\ PrintT(<<"rows", Len(C13Rows)>>) /\ ndJsonSerialize(Out, C13Rows)
ASSUME Mode = "c14srv" => /\ PrintT(<<"rows", Len(C14SrvRows)>>) /\ ndJsonSerialize(Out, C14SrvRows)
ASSUME Mode = "c14cli" => /\ PrintT(<<"rows", Len(C14CliRows)>>) /\ ndJsonSerialize(Out, C14CliRows)
(* ---- the same operators as a model: one initial state per element of the grammar, with    *)
(* declarative restatements of the recursive decision operators as invariants (M)           *)
GTok == {"a", "b", ".", "*", "?"}
STok == {"a", "b", "."}
Seq0to(T, n) == UNION {[1..k -> T] : k \in 0..n}
(* independent definition of glob matching: simulate the set of pattern positions reachable *)
RECURSIVE StarClose(_, _)
StarClose(p, S) == LET S2 == S \cup {i + 1 : i \in {j \in S : j <= Len(p) /\ p[j] = "*"}} IN IF S2 = S THEN S ELSE StarClose(p, S2)
RECURSIVE NFA(_, _, _)
NFA(p, s, S) == IF s = <<>> THEN (Len(p) + 1) \in StarClose(p, S)
                ELSE LET C == StarClose(p, S)
                         step == {i \in C : i <= Len(p) /\ p[i] = "*"} \cup
                                 {i + 1 : i \in {j \in C : j <= Len(p) /\ (p[j] = Head(s) \/ (p[j] = "?" /\ Head(s) \in {".", ":"}))}}
                     IN step # {} /\ NFA(p, Tail(s), step)
GlobNFA(p, s) == NFA(p, s, {1})
FirstOK(offers) == IF \E i \in 1..Len(offers) : OfferOK(offers[i])
                   THEN CHOOSE i \in 1..Len(offers) : OfferOK(offers[i]) /\ \A j \in 1..(i-1) : ~OfferOK(offers[j]) ELSE 0
VARIABLE x
StateSet == CASE Mode = "c11" -> C11Set
              [] Mode = "c12" -> Seq0to(GTok, 3) \X Seq0to(STok, 4)
              [] Mode = "c13" -> C13Set
              [] Mode = "c14srv" -> OfferLists \X Modes
              [] OTHER -> {0}
Init == x \in StateSet
Next == UNCHANGED x
RowInv ==
  CASE Mode = "c11" ->
         LET d == AcceptDecision(x) IN
         /\ d.upgrade => x.method = "GET" /\ x.proto # "1.0" /\ x.version = "13" /\ KeyOK(x.key)
         /\ (d.sub # "" => \E i \in 1..Len(x.offered) : x.offered[i] = d.sub)
         /\ (d.upgrade /\ d.sub # "" =>
               \E i \in 1..Len(x.supported) : /\ EqFold(x.supported[i], d.sub)
                                              /\ \A j \in 1..(i-1) : \A k \in 1..Len(x.offered) : ~EqFold(x.supported[j], x.offered[k]))
         /\ (d.upgrade /\ d.sub = "" => \A i \in 1..Len(x.supported) : \A k \in 1..Len(x.offered) : ~EqFold(x.supported[i], x.offered[k]))
    [] Mode = "c12" -> Glob(x[1], x[2]) = GlobNFA(x[1], x[2])
    [] Mode = "c13" -> (VerifyResponse(x.resp, x.requested, x.mode) = "accept" => x.resp.status = 101 /\ x.resp.accept = "correct" /\ (x.resp.sub = "" \/ \E i \in 1..Len(x.requested) : x.requested[i] = Selected(x.resp.sub)))
    [] Mode = "c14srv" ->
         LET sel == ServerSelect(x[1], x[2])  f == FirstOK(x[1]) IN
         /\ sel.on = (x[2] # "off" /\ f # 0)                                   \* falls back to the first acceptable offer, else none
         /\ (sel.on => /\ sel.snct = (x[2] = "nct" \/ Has(x[1][f], "server_no_context_takeover"))   \* echoes server_no_context_takeover
                        /\ sel.cnct = (x[2] = "nct" \/ Has(x[1][f], "client_no_context_takeover"))
                        /\ \A i \in 1..Len(x[1][f].params) : x[1][f].params[i].n = "server_max_window_bits" => x[1][f].params[i].v = "15")
         /\ LET cv == ClientVerify(Answer(sel), "ct") IN cv.ok /\ cv.on = sel.on      \* the answer is acceptable to a client
    [] OTHER -> TRUE
=============================================================================
