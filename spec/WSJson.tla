------------------------------- MODULE WSJson -------------------------------
(* C19: wsjson moves one JSON value per text message.                                        *)
(*  - Write(v): exactly one TEXT message whose payload is an encoding of v;                   *)
(*  - Read(target): consumes exactly one message; a document that is valid for the target     *)
(*    yields its value, any other document yields an error, a Close frame 1007 and a closed   *)
(*    connection;                                                                            *)
(*  - the pooled buffer a Read borrows is returned before Read returns and no decoded result  *)
(*    refers to it afterwards (results are copies).                                          *)
(* JSON encode/decode fidelity itself is encoding/json's (uninterpreted here): a document is  *)
(* a shape id, "valid" is a predicate supplied per (document, target).                        *)
EXTENDS Integers, Sequences, FiniteSets, TLC
CONSTANTS Conns, MaxOps, Dev           \* Dev \subseteq {"ResultAliasesBuffer", "WriterKeepsFailedValue"}
Docs == {"good", "badsyntax", "truncated", "twovalues", "wrongtype"}
VARIABLES inq,      \* [Conns -> Seq(Docs)] text messages waiting to be read
          out,      \* [Conns -> Seq([t |-> "text", vals |-> the values encoded in the message, w |-> the Write call it came from])]
          residue,  \* encoded values left behind in a (process-wide, pooled) encoder by Write calls that failed: Dev only
          nw,       \* Write calls so far (each call writes value number nw)
          bufOwner, \* "pool" or the connection whose Read currently borrows the single pooled buffer
          results,  \* set of [conn, aliases] records: decoded values still held by the application
          closed, wrote1007, nops
vars == <<inq, out, residue, nw, bufOwner, results, closed, wrote1007, nops>>
Init == /\ inq = [c \in Conns |-> <<>>] /\ out = [c \in Conns |-> <<>>] /\ residue = <<>> /\ nw = 0 /\ bufOwner = "pool" /\ results = {}
        /\ closed = [c \in Conns |-> FALSE] /\ wrote1007 = [c \in Conns |-> FALSE] /\ nops = 0
Tick == nops < MaxOps /\ nops' = nops + 1
PeerSend(c, d) == /\ Tick /\ ~closed[c] /\ Len(inq[c]) < 2 /\ inq' = [inq EXCEPT ![c] = Append(inq[c], d)]
                  /\ UNCHANGED <<out, residue, nw, bufOwner, results, closed, wrote1007>>
(* Write(v) on an open connection: one text message with v and nothing else.  On a closed connection (or with a context that is    *)
(* done) the call fails and nothing is written -- and nothing of v may survive the call: Dev "WriterKeepsFailedValue" encodes into *)
(* a pooled encoder that is only emptied after a successful write, so the next Write anywhere sends the lost value in front of its *)
(* own                                                                                                                              *)
JsonWrite(c) == /\ Tick /\ nw' = nw + 1
                /\ IF closed[c]
                     THEN /\ residue' = IF "WriterKeepsFailedValue" \in Dev THEN Append(residue, nw + 1) ELSE residue
                          /\ UNCHANGED out
                     ELSE /\ out' = [out EXCEPT ![c] = Append(out[c], [t |-> "text", vals |-> Append(residue, nw + 1), w |-> nw + 1])]
                          /\ residue' = <<>>
                /\ UNCHANGED <<inq, bufOwner, results, closed, wrote1007>>
(* the application closes a connection (so that later writes on it fail) *)
AppClose(c) == /\ Tick /\ ~closed[c] /\ closed' = [closed EXCEPT ![c] = TRUE]
               /\ UNCHANGED <<inq, out, residue, nw, bufOwner, results, wrote1007>>
(* Read is atomic with respect to the pool: borrow, fill from exactly one message, decode, return the buffer *)
JsonRead(c) == /\ Tick /\ ~closed[c] /\ inq[c] # <<>> /\ bufOwner = "pool"
               /\ LET d == Head(inq[c]) IN
                  /\ inq' = [inq EXCEPT ![c] = Tail(inq[c])]
                  /\ IF d = "good"
                       THEN /\ results' = results \cup {[conn |-> c, aliases |-> "ResultAliasesBuffer" \in Dev]}
                            /\ UNCHANGED <<closed, wrote1007>>
                       ELSE /\ closed' = [closed EXCEPT ![c] = TRUE] /\ wrote1007' = [wrote1007 EXCEPT ![c] = TRUE]
                            /\ UNCHANGED results
               /\ UNCHANGED <<out, residue, nw, bufOwner>>
Next == \E c \in Conns : JsonWrite(c) \/ JsonRead(c) \/ AppClose(c) \/ \E d \in Docs : PeerSend(c, d)
Spec == Init /\ [][Next]_vars
(* no decoded result refers to the pooled buffer, which the next Read on any connection overwrites *)
NoAliasAfterPut == \A r \in results : ~r.aliases
BadDocCloses1007 == \A c \in Conns : wrote1007[c] => closed[c]
OnlyTextWritten == \A c \in Conns : \A i \in 1..Len(out[c]) : out[c][i].t = "text"
(* "sends the JSON encoding of a value as exactly one text message": the message of a Write holds that call's value and no other *)
OneValuePerMessage == \A c \in Conns : \A i \in 1..Len(out[c]) : out[c][i].vals = <<out[c][i].w>>
=============================================================================
