----------------------------- MODULE WSJsonRows -----------------------------
(* JSON shapes (recursive finite set) and documents for the wsjson conformance driver.       *)
EXTENDS Integers, Sequences, FiniteSets, TLC, Json, IOUtils, SequencesExt
Leaves == {"null", "true", "num", "bignum", "str", "unicode", "longstr"}
Huge == [k |-> "leaf", v |-> "hugestr"]     \* larger than 1 MiB: beyond every size at which buffers are normally retained
Depth == IF "DEPTH" \in DOMAIN IOEnv THEN atoi(IOEnv.DEPTH) ELSE 2
RECURSIVE Shapes(_)
Shapes(d) == IF d = 0 THEN {[k |-> "leaf", v |-> l] : l \in Leaves}
             ELSE LET S == Shapes(d - 1) IN
                  S \cup {[k |-> "arr", items |-> <<>>]} \cup {[k |-> "arr", items |-> <<a>>] : a \in S}
                    \cup {[k |-> "arr", items |-> <<a, b>>] : a \in {s \in S : s.k = "leaf"}, b \in S}
                    \cup {[k |-> "obj", items |-> <<a>>] : a \in S}
                    \cup {[k |-> "obj", items |-> <<a, b>>] : a \in {s \in S : s.k = "leaf"}, b \in {s \in S : s.k = "leaf"}}
Targets == {"any", "raw", "bytes", "int", "string", "struct", "map"}
Faults == {"none", "truncate", "garbage", "twovalues", "emptymsg", "binaryframe"}
Rows == SetToSeq({ [shape |-> s, target |-> t, fault |-> f] : s \in Shapes(Depth), t \in Targets, f \in Faults })
        \o SetToSeq({ [shape |-> Huge, target |-> t, fault |-> "none"] : t \in {"any", "string", "raw"} })
        \* a document that is valid JSON but not valid for a deeply nested target: invalid for the target all the same (1007)
        \o SetToSeq({ [shape |-> [k |-> "leaf", v |-> "num"], target |-> "deepstruct", fault |-> f] : f \in {"none", "deeptype", "truncate", "garbage"} })
ASSUME PrintT(<<"rows", Len(Rows)>>)
ASSUME ndJsonSerialize(IOEnv.OUT, Rows)
VARIABLE x
Init == x = 0
Next == UNCHANGED x
=============================================================================
