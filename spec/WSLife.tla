------------------------------- MODULE WSLife -------------------------------
(* Life cycle of one connection at the level of the public API (C20): which histories of     *)
(* operations an application can perform, which library goroutines each operation starts,    *)
(* what ends the connection, and what must be true when the closing call has returned.       *)
(*                                                                                            *)
(* Goroutines the library starts for a connection (conn.go, read.go):                        *)
(*   "tl"  timeoutLoop, from newConn until the connection is closed;                         *)
(*   "cr"  the CloseRead reader, from CloseRead until its Reader call fails;                 *)
(*   "ac"  an asynchronous close(), started by a lock wait whose context expires (mu.lock).  *)
(* The module is used as a generator of histories (Rows, binding B: each history is run on   *)
(* a real connection and the goroutines the library created are counted after the closing    *)
(* call returned) and is model-checked for the life-cycle invariants below.  The interleaved *)
(* close protocol itself is WSConn's business.                                                *)
EXTENDS Integers, Sequences, FiniteSets, TLC

Ops == {"read", "write", "writer2", "ping", "closeread", "abandonReader", "abandonWriter",
        "lockExpire", "readExpire", "pingExpire", "netconnWrite", "netconnRead"}
(* closeAndClosenow: both at once, the history ends when both have returned; closenowThenClose / closeThenClosenow: the second  *)
(* call is made while the first is still running and the goroutines are counted as soon as the SECOND one has returned          *)
Enders == {"close", "closenow", "closeAndClosenow", "closenowThenClose", "closeThenClosenow", "peerclose+close", "peerclose+closenow",
           "protoerr+closenow", "transportfail+closenow", "transportfail+close",
           \* a Close whose handshake is under way (the peer does not answer), a second Close waiting for it, and then a call whose
           \* lock wait expires and closes the connection asynchronously: counted when the SECOND Close has returned
           "closeTwiceThenLockExpire",
           \* the CloseRead goroutine is blocked in a write -- answering a ping, or closing the connection with 1008 because a data
           \* message arrived -- (the peer has stopped reading, and the transport is slow to let go of pending I/O when it is
           \* closed); the context given to CloseRead is cancelled; then CloseNow
           "stalledPong+cancelCloseRead+closenow", "stalledPolicyClose+cancelCloseRead+closenow"}

S0 == [reader |-> "free", writer |-> "free", open |-> TRUE, gor |-> {"tl"}, ended |-> FALSE]

Enabled(s, op) ==
  /\ ~s.ended
  /\ CASE op \in {"read", "netconnRead", "abandonReader", "closeread", "readExpire"} -> s.open /\ s.reader = "free"
       [] op \in {"write", "writer2", "abandonWriter", "netconnWrite"} -> s.open /\ s.writer = "free"
       [] op \in {"ping", "pingExpire"} -> s.open /\ s.reader = "closeread"      \* somebody has to read the pong
       [] op = "lockExpire" -> s.open /\ s.writer = "abandoned"                  \* a Write queues behind the abandoned Writer
       [] op = "closeTwiceThenLockExpire" -> s.open /\ s.writer = "abandoned"
       [] op \in {"stalledPong+cancelCloseRead+closenow", "stalledPolicyClose+cancelCloseRead+closenow"} -> s.open /\ s.reader = "closeread"
       [] op \in Enders -> TRUE
       [] OTHER -> FALSE

(* the state once the operation has returned and the goroutines it made redundant have unwound *)
Step(s, op) ==
  CASE op = "closeread"     -> [s EXCEPT !.reader = "closeread", !.gor = @ \cup {"cr"}]
    [] op = "abandonReader" -> [s EXCEPT !.reader = "abandoned"]
    [] op = "abandonWriter" -> [s EXCEPT !.writer = "abandoned"]
    \* a context that expires inside a call closes the connection (documented on Conn); the timeoutLoop, a CloseRead reader
    \* and the asynchronous closer of a lock wait all leave by themselves
    [] op \in {"lockExpire", "readExpire", "pingExpire"} -> [s EXCEPT !.open = FALSE, !.gor = {}]
    [] op \in Enders        -> [s EXCEPT !.open = FALSE, !.gor = {}, !.ended = TRUE]
    [] OTHER                -> s

(* ---- model checking: every history, every state ---- *)
VARIABLES s, hist
vars == <<s, hist>>
CONSTANT MaxOps
Init == s = S0 /\ hist = <<>>
Next == \E op \in Ops \cup Enders :
           /\ Enabled(s, op) /\ (op \in Ops => Len(hist) < MaxOps)
           /\ s' = Step(s, op) /\ hist' = Append(hist, op)
Spec == Init /\ [][Next]_vars
TypeOK == s.reader \in {"free", "abandoned", "closeread"} /\ s.writer \in {"free", "abandoned"} /\ s.gor \subseteq {"tl", "cr", "ac"}
(* C20: when the closing call has returned no goroutine of the connection is left *)
NoneOutlives == s.ended => s.gor = {}
(* the watcher lives exactly as long as the connection is open; a CloseRead reader only on a connection that called CloseRead *)
WatcherWhileOpen == s.open => "tl" \in s.gor
ReaderOnlyAfterCloseRead == "cr" \in s.gor => s.reader = "closeread"
ClosedIsFinal == ~s.open => \A op \in Ops : ~Enabled(s, op)
=============================================================================
