----------------------------- MODULE WSLifeRows -----------------------------
(* Histories of WSLife for replay on real connections (binding B, C20): every enabled         *)
(* sequence of at most N operations followed by every way of ending the connection.           *)
EXTENDS WSLife, Json, IOUtils, SequencesExt
N == IF "N" \in DOMAIN IOEnv THEN atoi(IOEnv.N) ELSE 2
RECURSIVE Runs(_, _, _)
Runs(st, acc, k) ==
  {[steps |-> acc, st |-> st]} \cup (IF k = 0 THEN {} ELSE
     UNION { Runs(Step(st, op), Append(acc, op), k - 1) : op \in {o \in Ops : Enabled(st, o)} })
Hist == Runs(S0, <<>>, N)
Row(h, e) == [steps |-> h.steps, end |-> e, exp |-> [goroutines |-> Cardinality(Step(h.st, e).gor), open |-> Step(h.st, e).open]]
Rows == SetToSeq(UNION { { Row(h, e) : e \in {x \in Enders : Enabled(h.st, x)} } : h \in Hist })
ASSUME PrintT(<<"rows", Len(Rows)>>)
ASSUME ndJsonSerialize(IOEnv.OUT, Rows)
=============================================================================
