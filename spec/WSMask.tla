------------------------------- MODULE WSMask -------------------------------
(* RFC 6455 5.3 masking: byte i of the buffer is combined with key byte (i mod 4).  The     *)
(* model is symbolic: a masked position records WHICH key byte was applied, so composability *)
(* and the block decomposition of the implementation can be checked without integer XOR.     *)
EXTENDS Integers, Sequences, TLC

(* reference: key-byte index applied at each of n positions when masking starts at rotation k0 *)
MaskRef(n, k0) == [i \in 1..n |-> (k0 + i - 1) % 4]
(* rotation of the key returned after n bytes *)
Rot(k0, n) == (k0 + n) % 4

(* masking a buffer in consecutive pieces equals masking it whole, for any split *)
Compose2 == \A n \in 0..24 : \A a \in 0..n : \A k \in 0..3 :
               MaskRef(n, k) = MaskRef(a, k) \o MaskRef(n - a, Rot(k, a))
Compose3 == \A n \in 0..16 : \A a \in 0..n : \A b \in 0..(n - a) : \A k \in 0..3 :
               /\ MaskRef(n, k) = MaskRef(a, k) \o MaskRef(b, Rot(k, a)) \o MaskRef(n - a - b, Rot(Rot(k, a), b))
               /\ Rot(Rot(Rot(k, a), b), n - a - b) = Rot(k, n)
ASSUME Compose2 /\ Compose3

-----------------------------------------------------------------------------
(* Path model of maskGo (mask.go): unrolled 128/64/32/16/8-byte loops (entered only if the  *)
(* buffer has at least 8 bytes), a 4-byte loop, then single bytes with the key rotated right *)
(* by one byte each.  State: bytes still to do, position, rotation of the working key, the   *)
(* key-index pattern applied so far.                                                         *)
CONSTANT MaxLen
VARIABLES n0, rem, pos, rot, applied, wide, blocks
vars == <<n0, rem, pos, rot, applied, wide, blocks>>
Init == /\ n0 \in 0..MaxLen /\ rem = n0 /\ pos = 0 /\ rot = 0 /\ applied = <<>> /\ wide = (n0 >= 8) /\ blocks = <<>>
(* a block of b bytes (b a multiple of 4) XORs with the key repeated: indices rot, rot+1, ... *)
Block(b) == /\ rem >= b
            /\ applied' = applied \o [i \in 1..b |-> (rot + i - 1) % 4]
            /\ rem' = rem - b /\ pos' = pos + b /\ blocks' = Append(blocks, b) /\ UNCHANGED <<n0, rot, wide>>
Step == \/ wide /\ rem >= 128 /\ Block(128)
        \/ wide /\ rem < 128 /\ rem >= 64 /\ Block(64)
        \/ wide /\ rem < 64 /\ rem >= 32 /\ Block(32)
        \/ wide /\ rem < 32 /\ rem >= 16 /\ Block(16)
        \/ wide /\ rem < 16 /\ rem >= 8 /\ Block(8)
        \/ (~wide \/ rem < 8) /\ rem >= 4 /\ Block(4)
        \/ /\ rem < 4 /\ rem > 0                       \* b[i] ^= byte(key); key = RotateRight8(key)
           /\ applied' = Append(applied, rot) /\ rot' = (rot + 1) % 4
           /\ rem' = rem - 1 /\ pos' = pos + 1 /\ blocks' = Append(blocks, 1) /\ UNCHANGED <<n0, wide>>
Next == Step
Spec == Init /\ [][Next]_vars
(* the decomposition applies exactly the reference pattern, and ends with the reference rotation *)
PatternOK == applied = MaskRef(pos, 0)
Done == rem = 0
ReturnOK == Done => rot = Rot(0, n0) /\ applied = MaskRef(n0, 0)
(* blocks of at least 4 bytes never start at a rotated key *)
WideAligned == \A i \in 1..Len(blocks) : blocks[i] >= 4 => \A j \in 1..(i-1) : blocks[j] >= 4
=============================================================================
