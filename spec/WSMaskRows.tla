----------------------------- MODULE WSMaskRows -----------------------------
(* Decision table for C17: for every length the key-byte index the reference applies at each *)
(* position (written out in full up to 300 bytes, which covers every unrolled threshold once: *)
(* 128+64+32+16+8+4+3) and the rotation of the returned key, for every start rotation.        *)
EXTENDS Integers, Sequences, TLC, Json, IOUtils
MaskRef(n, k0) == [i \in 1..n |-> (k0 + i - 1) % 4]
Rot(k0, n) == (k0 + n) % 4
Row(n) == [n |-> n, ret |-> [k \in 1..4 |-> Rot(k - 1, n)],
           pat |-> IF n <= 300 THEN MaskRef(n, 0) ELSE <<>>]
Rows == [i \in 1..4201 |-> Row(i - 1)]
ASSUME ndJsonSerialize(IOEnv.OUT, Rows)
VARIABLE x
Init == x = 0
Next == UNCHANGED x
=============================================================================
