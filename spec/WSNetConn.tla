------------------------------ MODULE WSNetConn ------------------------------
(* C18: the net.Conn adapter over a Conn.  One adapter endpoint, an arbitrary peer.           *)
(*  - Write(p) sends p as exactly one message of the adapter's type;                         *)
(*  - Read(buf) returns bytes of the concatenation of the peer's messages of that type,       *)
(*    at most the rest of the current message, skipping empty messages;                       *)
(*  - a peer Close with 1000/1001 reads as io.EOF (sticky), any other close as an error;      *)
(*  - a message of the other type fails the read and closes the connection with 1003;         *)
(*  - a deadline that passes while no call is active only marks the direction expired:        *)
(*    calls fail with a deadline error until the deadline is set again, the connection stays  *)
(*    usable; a deadline that fires during an active call fails it and closes the connection. *)
(* Sizes are in abstract units; the harness scales them (1 B, 4 KiB, 64 KiB + 1).              *)
EXTENDS Integers, Sequences, FiniteSets, TLC

S0 == [inq |-> <<>>,       \* messages the peer sent and the adapter has not consumed: [t |-> "ok"|"wrong", n |-> units left]
       eof |-> FALSE, closed |-> FALSE, rexp |-> FALSE, wexp |-> FALSE, peerClose |-> 0,
       rstream |-> 0,      \* units handed out by Read so far
       wmsgs |-> <<>>]     \* sizes of the messages written so far
Ops == {"send1", "send0", "send3", "sendWrong", "read1", "read2", "read9", "write0", "write2",
        "peerClose1000", "peerClose1001", "peerClose4000", "rdlPast", "rdlZero", "rdlFuture", "wdlPast", "wdlZero",
        "readBlockedDeadline", "writeBlockedDeadline", "readBlockedSetPast", "writeBlockedSetPast"}
BufOf(op) == CASE op = "read1" -> 1 [] op = "read2" -> 2 [] op = "read9" -> 9
Min2(a, b) == IF a < b THEN a ELSE b
RECURSIVE DropEmpty(_)
DropEmpty(q) == IF q # <<>> /\ Head(q).t = "ok" /\ Head(q).n = 0 THEN DropEmpty(Tail(q)) ELSE q
(* which operations the driver can perform without blocking forever or racing with itself *)
Enabled(s, op) ==
  CASE op \in {"send1", "send0", "send3", "sendWrong"} -> s.peerClose = 0 /\ ~s.closed /\ Len(s.inq) < 3
    [] op \in {"peerClose1000", "peerClose1001", "peerClose4000"} -> s.peerClose = 0 /\ ~s.closed
    [] op \in {"read1", "read2", "read9"} -> s.rexp \/ s.eof \/ s.closed \/ DropEmpty(s.inq) # <<>> \/ s.peerClose # 0
    [] op \in {"write0", "write2"} -> s.peerClose = 0
    \* (...Deadline begins by setting a deadline 30 ms ahead, which resets an earlier idle expiry: it is enabled after one too --
    \*  a deadline later than one that has already expired must be armed like any other)
    [] op = "readBlockedSetPast" -> ~s.rexp /\ ~s.eof /\ ~s.closed /\ DropEmpty(s.inq) = <<>> /\ s.peerClose = 0
    [] op = "readBlockedDeadline" -> ~s.eof /\ ~s.closed /\ DropEmpty(s.inq) = <<>> /\ s.peerClose = 0
    [] op = "writeBlockedSetPast" -> ~s.wexp /\ ~s.closed /\ s.peerClose = 0
    [] op = "writeBlockedDeadline" -> ~s.closed /\ s.peerClose = 0
    [] OTHER -> TRUE
(* Step(s, op) = [s |-> next state, obs |-> what the call must report] *)
Step(s, op) ==
  CASE op = "send1" -> [s |-> [s EXCEPT !.inq = Append(s.inq, [t |-> "ok", n |-> 1])], obs |-> "sent"]
    [] op = "send0" -> [s |-> [s EXCEPT !.inq = Append(s.inq, [t |-> "ok", n |-> 0])], obs |-> "sent"]
    [] op = "send3" -> [s |-> [s EXCEPT !.inq = Append(s.inq, [t |-> "ok", n |-> 3])], obs |-> "sent"]
    [] op = "sendWrong" -> [s |-> [s EXCEPT !.inq = Append(s.inq, [t |-> "wrong", n |-> 1])], obs |-> "sent"]
    [] op \in {"peerClose1000", "peerClose1001", "peerClose4000"} ->
         [s |-> [s EXCEPT !.peerClose = IF op = "peerClose1000" THEN 1000 ELSE IF op = "peerClose1001" THEN 1001 ELSE 4000], obs |-> "sent"]
    [] op \in {"read1", "read2", "read9"} ->
         IF s.rexp THEN [s |-> s, obs |-> "deadline"]
         ELSE IF s.eof THEN [s |-> s, obs |-> "eof"]
         ELSE IF s.closed THEN [s |-> s, obs |-> "error"]
         ELSE LET q == DropEmpty(s.inq) IN
           IF q # <<>> /\ Head(q).t = "wrong"
             THEN [s |-> [s EXCEPT !.inq = <<>>, !.closed = TRUE], obs |-> "wrongtype"]
           ELSE IF q # <<>>
             THEN LET k == Min2(BufOf(op), Head(q).n)
                      rest == IF Head(q).n = k THEN Tail(q) ELSE <<[Head(q) EXCEPT !.n = Head(q).n - k]>> \o Tail(q)
                  IN [s |-> [s EXCEPT !.inq = rest, !.rstream = s.rstream + k], obs |-> "data", n |-> k]
           ELSE IF s.peerClose \in {1000, 1001} THEN [s |-> [s EXCEPT !.eof = TRUE, !.closed = TRUE], obs |-> "eof"]
           ELSE [s |-> [s EXCEPT !.closed = TRUE], obs |-> "error"]          \* peerClose = 4000
    [] op \in {"write0", "write2"} ->
         IF s.wexp THEN [s |-> s, obs |-> "deadline"]
         ELSE IF s.closed THEN [s |-> s, obs |-> "error"]
         ELSE [s |-> [s EXCEPT !.wmsgs = Append(s.wmsgs, IF op = "write0" THEN 0 ELSE 2)], obs |-> "ok"]
    [] op = "rdlPast" -> [s |-> [s EXCEPT !.rexp = TRUE], obs |-> "idle"]
    [] op \in {"rdlZero", "rdlFuture"} -> [s |-> [s EXCEPT !.rexp = FALSE], obs |-> "set"]
    [] op = "wdlPast" -> [s |-> [s EXCEPT !.wexp = TRUE], obs |-> "idle"]
    [] op = "wdlZero" -> [s |-> [s EXCEPT !.wexp = FALSE], obs |-> "set"]
    \* a deadline armed before the call that fires during it, or a deadline in the past set by another goroutine while the call is blocked
    [] op \in {"readBlockedDeadline", "readBlockedSetPast"} -> [s |-> [s EXCEPT !.closed = TRUE, !.rexp = FALSE], obs |-> "active"]
    [] op \in {"writeBlockedDeadline", "writeBlockedSetPast"} -> [s |-> [s EXCEPT !.closed = TRUE, !.wexp = FALSE], obs |-> "active"]

(* ---- as a state machine (M) ---- *)
CONSTANT MaxOps
VARIABLES st, hist
vars == <<st, hist>>
Init == st = S0 /\ hist = <<>>
Next == \E op \in Ops : /\ Len(hist) < MaxOps /\ Enabled(st, op)
                        /\ LET r == Step(st, op) IN st' = r.s /\ hist' = Append(hist, [op |-> op, obs |-> r.obs])
Spec == Init /\ [][Next]_vars
RECURSIVE SumN(_)
SumN(q) == IF q = <<>> THEN 0 ELSE Head(q).n + SumN(Tail(q))
Sent == LET ok == SelectSeq(hist, LAMBDA h : h.op \in {"send1", "send3"}) IN
        SumN([i \in 1..Len(ok) |-> [n |-> IF ok[i].op = "send1" THEN 1 ELSE 3]])
(* bytes read never exceed bytes sent, and what is pending is exactly the difference (until a wrong-type message discards the rest) *)
StreamEq == /\ st.rstream <= Sent
            /\ ((\A i \in 1..Len(hist) : hist[i].obs # "wrongtype") => st.rstream + SumN(SelectSeq(st.inq, LAMBDA m : m.t = "ok")) = Sent)
(* io.EOF only after a normal or going-away close, and only once everything sent before it was read *)
EOFMap == st.eof => st.peerClose \in {1000, 1001} /\ DropEmpty(st.inq) = <<>>
(* an idle deadline never closes the connection: right after it the connection is closed only if it already was *)
IdleKeepsOpen == \A i \in 1..Len(hist) : hist[i].obs = "idle" =>
                   (st.closed => \E j \in 1..Len(hist) : j # i /\ hist[j].obs \in {"active", "wrongtype", "error", "eof"})
=============================================================================
