---------------------------- MODULE WSNetConnRows ----------------------------
(* Behaviours of WSNetConn for replay into the real adapter (binding B): every enabled        *)
(* sequence of at most N operations, with the observation each call must report.              *)
EXTENDS WSNetConn, Json, IOUtils, SequencesExt
N == IF "N" \in DOMAIN IOEnv THEN atoi(IOEnv.N) ELSE 4
RECURSIVE Runs(_, _, _)
Runs(s, acc, k) ==
  {acc} \cup (IF k = 0 THEN {} ELSE
     UNION { LET r == Step(s, op) IN Runs(r.s, Append(acc, [op |-> op, obs |-> r.obs, n |-> IF "n" \in DOMAIN r THEN r.n ELSE 0]), k - 1)
             : op \in {o \in Ops : Enabled(s, o)} })
Useful(run) == run # <<>> /\ \E i \in 1..Len(run) : run[i].op \notin {"send1", "send0", "send3", "sendWrong", "rdlZero", "wdlZero"}
Rows == SetToSeq({ [steps |-> r] : r \in { x \in Runs(S0, <<>>, N) : Useful(x) /\ (Len(x) = N \/ x[Len(x)].obs \in {"eof", "error", "wrongtype", "active"}) } })
ASSUME PrintT(<<"rows", Len(Rows)>>)
ASSUME ndJsonSerialize(IOEnv.OUT, Rows)
=============================================================================
