---------------------------- MODULE WSNetConnRows ----------------------------
(* Behaviours of WSNetConn for replay into the real adapter (binding B): every enabled        *)
(* sequence of at most N operations, with the observation each call must report.              *)
EXTENDS WSNetConn, Json, IOUtils, SequencesExt
N == IF "N" \in DOMAIN IOEnv THEN atoi(IOEnv.N) ELSE 4
RECURSIVE Runs(_, _, _)
(* every enabled behaviour of at most k more operations from state s, with the state it ends in *)
Runs(s, acc, k) ==
  {[steps |-> acc, st |-> s]} \cup (IF k = 0 THEN {} ELSE
     UNION { LET r == Step(s, op) IN Runs(r.s, Append(acc, [op |-> op, obs |-> r.obs, n |-> IF "n" \in DOMAIN r THEN r.n ELSE 0]), k - 1)
             : op \in {o \in Ops : Enabled(s, o)} })
(* probes appended to every behaviour: sticky states (EOF, expired, closed) must survive an idle expiry and a reset *)
Probes == { <<"rdlPast", "rdlZero", "read1">>, <<"rdlPast", "read1", "rdlFuture", "read1">>, <<"wdlPast", "wdlZero", "write2">>,
            <<"read1", "read1">>, <<"rdlPast", "wdlPast", "rdlZero", "wdlZero", "write2", "read1">> }
RECURSIVE Extend(_, _, _)
Extend(s, acc, p) == IF p = <<>> THEN acc
                     ELSE IF ~Enabled(s, Head(p)) THEN <<>>
                     ELSE LET r == Step(s, Head(p)) IN Extend(r.s, Append(acc, [op |-> Head(p), obs |-> r.obs, n |-> IF "n" \in DOMAIN r THEN r.n ELSE 0]), Tail(p))
Useful(run) == run # <<>> /\ \E i \in 1..Len(run) : run[i].op \notin {"send1", "send0", "send3", "sendWrong", "rdlZero", "wdlZero"}
Base == Runs(S0, <<>>, N)
Plain == { x.steps : x \in { y \in Base : Useful(y.steps) /\ (Len(y.steps) = N \/ y.steps[Len(y.steps)].obs \in {"eof", "error", "wrongtype", "active"}) } }
Probed == { Extend(x.st, x.steps, p) : x \in { y \in Base : Len(y.steps) <= N - 1 /\ Len(y.steps) >= 1 }, p \in Probes } \ {<<>>}
Rows == SetToSeq({ [steps |-> r] : r \in Plain \cup Probed })
ASSUME PrintT(<<"rows", Len(Rows)>>)
ASSUME ndJsonSerialize(IOEnv.OUT, Rows)
=============================================================================
