------------------------------- MODULE WSPair -------------------------------
(* C01 / C14: one direction of a connection between a sender and a receiver that negotiated  *)
(* permessage-deflate, at message granularity.  What matters for fidelity is which plaintext *)
(* the compressor may refer back to (its LZ77 window) and which dictionary the decompressor  *)
(* is primed with: a compressed message is decodable iff the two are the same sequence.      *)
(* Window contents are sequences of message-unit ids; W units = 32 KiB.                       *)
(*  - the sender compresses a message iff compression was negotiated and the FIRST chunk     *)
(*    written reaches the threshold (decided once per message);                              *)
(*  - with context takeover the sender's window is the last W units of the plaintext of the  *)
(*    COMPRESSED messages only (uncompressed ones bypass the compressor); without takeover   *)
(*    every message starts from an empty window;                                            *)
(*  - the receiver maintains its dictionary by the same rule, from its own view of the       *)
(*    negotiated flag for THIS direction.                                                    *)
(* Dev names two mutations the model must catch.                                             *)
EXTENDS Integers, Sequences, FiniteSets, TLC
CONSTANTS Negotiated,      \* permessage-deflate agreed
          STakeover,       \* sender's view: context takeover in this direction
          RTakeover,       \* receiver's view of the same flag
          W, MaxMsgs, Dev
VARIABLES sWin, wire, rDict, sent, delivered, undecodable, nextUnit
vars == <<sWin, wire, rDict, sent, delivered, undecodable, nextUnit>>
SuffixCap(w, s) == IF Len(s) <= w THEN s ELSE SubSeq(s, Len(s) - w + 1, Len(s))
Init == sWin = <<>> /\ wire = <<>> /\ rDict = <<>> /\ sent = <<>> /\ delivered = <<>> /\ undecodable = FALSE /\ nextUnit = 1
Types == {"text", "bin"}
(* size classes in window units: 0 = empty message, 1 = one unit, W+1 = longer than the window *)
Sizes == {0, 1, W + 1}
Send(t, first, n) ==
  /\ Len(sent) < MaxMsgs
  /\ LET comp == Negotiated /\ first = "large" /\ n > 0
         units == [i \in 1..n |-> nextUnit + i - 1]
         m == [id |-> Len(sent) + 1, type |-> t, comp |-> comp, units |-> units,
               dep |-> IF comp /\ STakeover THEN sWin ELSE <<>>]
     IN /\ wire' = Append(wire, m) /\ sent' = Append(sent, [id |-> m.id, type |-> t, units |-> units])
        /\ sWin' = IF comp /\ STakeover THEN SuffixCap(W, sWin \o units) ELSE sWin
        /\ nextUnit' = nextUnit + n
  /\ UNCHANGED <<rDict, delivered, undecodable>>
Recv ==
  /\ wire # <<>>
  /\ LET m == Head(wire)
         dict == IF RTakeover THEN rDict ELSE <<>>
         ok == ~m.comp \/ dict = m.dep
     IN /\ wire' = Tail(wire)
        /\ undecodable' = (undecodable \/ ~ok)
        /\ delivered' = IF ok THEN Append(delivered, [id |-> m.id, type |-> m.type, units |-> m.units]) ELSE delivered
        /\ rDict' = IF RTakeover /\ (m.comp \/ "DictUpdatedForUncompressed" \in Dev)
                    THEN SuffixCap(W, rDict \o m.units) ELSE rDict
  /\ UNCHANGED <<sWin, sent, nextUnit>>
Next == (\E t \in Types, f \in {"small", "large"}, n \in Sizes : Send(t, f, n)) \/ Recv
Spec == Init /\ [][Next]_vars /\ WF_vars(Recv)
(* C01: what arrives is exactly what was sent, same type, same bytes, in order, at most once *)
IsPrefix(a, b) == Len(a) <= Len(b) /\ SubSeq(b, 1, Len(a)) = a
Fidelity == ~undecodable /\ IsPrefix(delivered, sent)
AllArrive == <>[](wire = <<>> => delivered = sent)
(* both ends maintain the same window whenever they agree on the flag *)
DictAgree == (STakeover = RTakeover /\ wire = <<>> /\ Dev = {}) => (IF STakeover THEN rDict = sWin ELSE TRUE)
CompOnlyIfNegotiated == \A i \in 1..Len(wire) : wire[i].comp => Negotiated
=============================================================================
