----------------------------- MODULE WSPairRows -----------------------------
(* Programs for the round-trip conformance driver (C01, C02): messages described by type,    *)
(* API, chunking in size classes relative to the compression threshold, and content class;   *)
(* the agreed extension parameters are computed by WSHandshake's negotiation operators.      *)
EXTENDS WSHandshake, Json, IOUtils, SequencesExt
Big == IF "BIG" \in DOMAIN IOEnv THEN IOEnv.BIG = "1" ELSE FALSE
(* chunk size classes: z = 0 bytes, s = below the threshold, t = exactly the threshold, l = above it, *)
(* x = more than the 32 KiB window, b = a framing boundary (125/126/65535/65536, picked by the harness) *)
Chunk == {"z", "s", "t", "l", "x", "b"}
Chunkings == {<<>>} \cup {<<a>> : a \in Chunk} \cup {<<a, b>> : a \in Chunk, b \in Chunk} \cup {<<"s", "z", "l">>, <<"l", "l", "l">>, <<"t", "s", "x">>}
Msg(t, api, ch, c) == [type |-> t, api |-> api, chunks |-> ch, content |-> c]
AllMsgs == { Msg(t, api, ch, c) : t \in {"text", "bin"}, api \in {"write", "writer"}, ch \in Chunkings, c \in {"rand", "repeat", "zeros"} }
            \ { m \in { Msg(t, "write", ch, c) : t \in {"text", "bin"}, ch \in Chunkings, c \in {"rand", "repeat", "zeros"} } : Len(m.chunks) # 1 }
Few == { Msg("text", "write", <<"l">>, "repeat"), Msg("bin", "write", <<"s">>, "rand"), Msg("bin", "writer", <<"l", "l">>, "repeat"),
         Msg("text", "writer", <<"s", "x">>, "repeat"), Msg("bin", "write", <<"x">>, "repeat"), Msg("text", "write", <<"z">>, "rand"),
         Msg("bin", "writer", <<>>, "rand"), Msg("text", "write", <<"t">>, "zeros"), Msg("bin", "write", <<"b">>, "rand") }
Progs == {<<m>> : m \in AllMsgs} \cup {<<a, b>> : a \in Few, b \in Few} \cup (IF Big THEN {<<a, b, c>> : a \in Few, b \in Few, c \in Few} ELSE {<<a, b, a>> : a \in Few, b \in Few})
Thresholds == {"default", "one", "huge"}
Agreed(cm, sm) == ServerSelect(ClientOffer(cm), sm)
Rows == SetToSeq({ [cm |-> cm, sm |-> sm, threshold |-> th, msgs |-> p, agreed |-> Agreed(cm, sm)] :
                     cm \in Modes, sm \in Modes, th \in Thresholds, p \in Progs })
ASSUME PrintT(<<"rows", Len(Rows)>>)
ASSUME ndJsonSerialize(IOEnv.OUT, Rows)
VARIABLE x
Init == x = 0
Next == UNCHANGED x
=============================================================================
