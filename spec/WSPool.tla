------------------------------- MODULE WSPool -------------------------------
(* C07: ownership of pooled decompressors across connections.  Each connection has two      *)
(* references to its flate reader, as in the code: the message reader's field (holds) and   *)
(* the limit reader's source (ref).  Reaching the end of a compressed message returns the   *)
(* object to the shared pool; the property is that no connection ever calls into an object  *)
(* it does not own.  Dev = {"ReadAgainUsesRef"} is the code before its fix: commit.         *)
EXTENDS Integers, FiniteSets, TLC
CONSTANTS Conns, Objs, Dev, MaxSteps
VARIABLES owner,   \* [Objs -> Conns \cup {"pool", "fresh"}]
          holds,   \* [Conns -> Objs \cup {"none"}]   msgReader.flateReader
          ref,     \* [Conns -> Objs \cup {"none"}]   limitReader.r
          msg,     \* [Conns -> {"none", "open", "eof", "closed"}]
          used,    \* set of <<conn, obj, ownerAtUse>> : every call into a pooled object
          stale,   \* objects that still hold plaintext of the connection that used them last (window content)
          leaked,  \* a connection was handed an object that still held another connection's plaintext
          appHolds, \* pooled objects into whose memory the APPLICATION still holds a slice (a result some read handed out)
          steps
vars == <<owner, holds, ref, msg, used, stale, leaked, appHolds, steps>>
Init == /\ owner = [o \in Objs |-> "fresh"] /\ holds = [c \in Conns |-> "none"] /\ ref = [c \in Conns |-> "none"]
        /\ msg = [c \in Conns |-> "none"] /\ used = {} /\ stale = {} /\ leaked = FALSE /\ appHolds = {} /\ steps = 0
Tick == steps < MaxSteps /\ steps' = steps + 1
(* a compressed message starts: take any pooled object, or a fresh one if the pool is empty *)
Start(c) == /\ Tick /\ msg[c] \in {"none", "eof"}
            /\ \E o \in Objs :
                 /\ owner[o] = "pool" \/ (owner[o] = "fresh" /\ \A p \in Objs : owner[p] # "pool")
                 /\ owner' = [owner EXCEPT ![o] = c] /\ holds' = [holds EXCEPT ![c] = o] /\ ref' = [ref EXCEPT ![c] = o]
                 /\ leaked' = (leaked \/ o \in stale)
            /\ msg' = [msg EXCEPT ![c] = "open"] /\ UNCHANGED <<used, stale, appHolds>>
ReadPart(c) == /\ Tick /\ msg[c] = "open" /\ used' = used \cup {<<c, ref[c], owner[ref[c]]>>}
               /\ stale' = stale \cup {ref[c]}        \* the object now holds c's plaintext
               /\ UNCHANGED <<owner, holds, ref, msg, leaked, appHolds>>
ReadToEnd(c) == /\ Tick /\ msg[c] = "open" /\ used' = used \cup {<<c, ref[c], owner[ref[c]]>>}
                /\ owner' = [owner EXCEPT ![holds[c]] = "pool"] /\ holds' = [holds EXCEPT ![c] = "none"]
                /\ stale' = IF "PutWithoutClear" \in Dev THEN stale \cup {holds[c]} ELSE stale \ {holds[c]}   \* returned objects are cleared
                /\ msg' = [msg EXCEPT ![c] = "eof"] /\ UNCHANGED <<ref, leaked, appHolds>>
(* reading again after the end: the fixed code answers EOF without touching ref *)
ReadAgain(c) == /\ Tick /\ msg[c] = "eof"
                /\ IF "ReadAgainUsesRef" \in Dev THEN used' = used \cup {<<c, ref[c], owner[ref[c]]>>} ELSE UNCHANGED used
                /\ UNCHANGED <<owner, holds, ref, msg, stale, leaked, appHolds>>
(* the connection closes at any moment, also in the middle of a message *)
Close(c) == /\ Tick /\ msg[c] # "closed"
            /\ owner' = IF holds[c] # "none" THEN [owner EXCEPT ![holds[c]] = "pool"] ELSE owner
            /\ stale' = IF holds[c] # "none" /\ "PutWithoutClear" \notin Dev THEN stale \ {holds[c]} ELSE stale
            /\ holds' = [holds EXCEPT ![c] = "none"] /\ msg' = [msg EXCEPT ![c] = "closed"] /\ UNCHANGED <<ref, used, leaked, appHolds>>
(* Conn.Read / wsjson.Read: the library collects a whole message -- possibly in a pooled buffer -- and hands the caller a slice, with *)
(* or without an error.  What the caller gets is its own: a private copy.  Dev "ResultAliasesPool" hands out the pooled buffer's own *)
(* bytes (and puts the buffer back): the next connection to take it overwrites what the caller was given.                            *)
ReadWhole(c) == /\ Tick /\ msg[c] \in {"none", "eof"}
                /\ IF "ResultAliasesPool" \in Dev
                     THEN \E o \in Objs : owner[o] \in {"pool", "fresh"} /\ appHolds' = appHolds \cup {o} /\ owner' = [owner EXCEPT ![o] = "pool"]
                     ELSE UNCHANGED <<appHolds, owner>>
                /\ UNCHANGED <<holds, ref, msg, used, stale, leaked>>
Next == \E c \in Conns : Start(c) \/ ReadPart(c) \/ ReadToEnd(c) \/ ReadAgain(c) \/ Close(c) \/ ReadWhole(c)
Spec == Init /\ [][Next]_vars
UseImpliesOwner == \A u \in used : u[3] = u[1]
NoSharedOwner == \A c \in Conns : holds[c] # "none" => owner[holds[c]] = c
(* a connection never starts on an object that still holds another connection's plaintext *)
FreshObjectsClean == ~leaked
(* memory the application was handed is never again in the pool or in the hands of a connection *)
ResultsArePrivate == \A o \in appHolds : owner[o] \notin Conns \cup {"pool"}
AtMostOneHolder == \A c, d \in Conns : (c # d /\ holds[c] # "none") => holds[c] # holds[d]
=============================================================================
