---- MODULE WSPool_TTrace_1790296520 ----
EXTENDS Sequences, TLCExt, WSPool, Toolbox, Naturals, TLC

_expression ==
    LET WSPool_TEExpression == INSTANCE WSPool_TEExpression
    IN WSPool_TEExpression!expression
----

_trace ==
    LET WSPool_TETrace == INSTANCE WSPool_TETrace
    IN WSPool_TETrace!trace
----

_inv ==
    ~(
        TLCGet("level") = Len(_TETrace)
        /\
        owner = ([o1 |-> "pool", o2 |-> "fresh"])
        /\
        msg = ([A |-> "none", B |-> "none"])
        /\
        ref = ([A |-> "none", B |-> "none"])
        /\
        stale = ({})
        /\
        appHolds = ({"o1"})
        /\
        holds = ([A |-> "none", B |-> "none"])
        /\
        leaked = (FALSE)
        /\
        used = ({})
        /\
        steps = (1)
    )
----

_init ==
    /\ appHolds = _TETrace[1].appHolds
    /\ owner = _TETrace[1].owner
    /\ used = _TETrace[1].used
    /\ ref = _TETrace[1].ref
    /\ steps = _TETrace[1].steps
    /\ msg = _TETrace[1].msg
    /\ stale = _TETrace[1].stale
    /\ holds = _TETrace[1].holds
    /\ leaked = _TETrace[1].leaked
----

_next ==
    /\ \E i,j \in DOMAIN _TETrace:
        /\ \/ /\ j = i + 1
              /\ i = TLCGet("level")
        /\ appHolds  = _TETrace[i].appHolds
        /\ appHolds' = _TETrace[j].appHolds
        /\ owner  = _TETrace[i].owner
        /\ owner' = _TETrace[j].owner
        /\ used  = _TETrace[i].used
        /\ used' = _TETrace[j].used
        /\ ref  = _TETrace[i].ref
        /\ ref' = _TETrace[j].ref
        /\ steps  = _TETrace[i].steps
        /\ steps' = _TETrace[j].steps
        /\ msg  = _TETrace[i].msg
        /\ msg' = _TETrace[j].msg
        /\ stale  = _TETrace[i].stale
        /\ stale' = _TETrace[j].stale
        /\ holds  = _TETrace[i].holds
        /\ holds' = _TETrace[j].holds
        /\ leaked  = _TETrace[i].leaked
        /\ leaked' = _TETrace[j].leaked

\* Uncomment the ASSUME below to write the states of the error trace
\* to the given file in Json format. Note that you can pass any tuple
\* to `JsonSerialize`. For example, a sub-sequence of _TETrace.
    \* ASSUME
    \*     LET J == INSTANCE Json
    \*         IN J!JsonSerialize("WSPool_TTrace_1790296520.json", _TETrace)

=============================================================================

 Note that you can extract this module `WSPool_TEExpression`
  to a dedicated file to reuse `expression` (the module in the 
  dedicated `WSPool_TEExpression.tla` file takes precedence 
  over the module `WSPool_TEExpression` below).

---- MODULE WSPool_TEExpression ----
EXTENDS Sequences, TLCExt, WSPool, Toolbox, Naturals, TLC

expression == 
    [
        \* To hide variables of the `WSPool` spec from the error trace,
        \* remove the variables below.  The trace will be written in the order
        \* of the fields of this record.
        appHolds |-> appHolds
        ,owner |-> owner
        ,used |-> used
        ,ref |-> ref
        ,steps |-> steps
        ,msg |-> msg
        ,stale |-> stale
        ,holds |-> holds
        ,leaked |-> leaked
        
        \* Put additional constant-, state-, and action-level expressions here:
        \* ,_stateNumber |-> _TEPosition
        \* ,_appHoldsUnchanged |-> appHolds = appHolds'
        
        \* Format the `appHolds` variable as Json value.
        \* ,_appHoldsJson |->
        \*     LET J == INSTANCE Json
        \*     IN J!ToJson(appHolds)
        
        \* Lastly, you may build expressions over arbitrary sets of states by
        \* leveraging the _TETrace operator.  For example, this is how to
        \* count the number of times a spec variable changed up to the current
        \* state in the trace.
        \* ,_appHoldsModCount |->
        \*     LET F[s \in DOMAIN _TETrace] ==
        \*         IF s = 1 THEN 0
        \*         ELSE IF _TETrace[s].appHolds # _TETrace[s-1].appHolds
        \*             THEN 1 + F[s-1] ELSE F[s-1]
        \*     IN F[_TEPosition - 1]
    ]

=============================================================================



Parsing and semantic processing can take forever if the trace below is long.
 In this case, it is advised to uncomment the module below to deserialize the
 trace from a generated binary file.

\*
\*---- MODULE WSPool_TETrace ----
\*EXTENDS IOUtils, WSPool, TLC
\*
\*trace == IODeserialize("WSPool_TTrace_1790296520.bin", TRUE)
\*
\*=============================================================================
\*

---- MODULE WSPool_TETrace ----
EXTENDS WSPool, TLC

trace == 
    <<
    ([owner |-> [o1 |-> "fresh", o2 |-> "fresh"],msg |-> [A |-> "none", B |-> "none"],ref |-> [A |-> "none", B |-> "none"],stale |-> {},appHolds |-> {},holds |-> [A |-> "none", B |-> "none"],leaked |-> FALSE,used |-> {},steps |-> 0]),
    ([owner |-> [o1 |-> "pool", o2 |-> "fresh"],msg |-> [A |-> "none", B |-> "none"],ref |-> [A |-> "none", B |-> "none"],stale |-> {},appHolds |-> {"o1"},holds |-> [A |-> "none", B |-> "none"],leaked |-> FALSE,used |-> {},steps |-> 1])
    >>
----


=============================================================================

---- CONFIG WSPool_TTrace_1790296520 ----
CONSTANTS
    Conns = { "A" , "B" }
    Objs = { "o1" , "o2" }
    Dev = { "ResultAliasesPool" }
    MaxSteps = 8

INVARIANT
    _inv

CHECK_DEADLOCK
    \* CHECK_DEADLOCK off because of PROPERTY or INVARIANT above.
    FALSE

INIT
    _init

NEXT
    _next

CONSTANT
    _TETrace <- _trace

ALIAS
    _expression
=============================================================================
\* Generated on Fri Sep 25 00:35:22 UTC 2026