------------------------------- MODULE WSRecv -------------------------------
(* Reference inbound decoder of a WebSocket endpoint (RFC 6455 5.2-5.6, 7.x;  *)
(* RFC 7692 6-7): the reaction of an endpoint to every frame a peer can send. *)
(*                                                                            *)
(* This module is written from the RFCs, not from the library.  It is used    *)
(*  - as a state machine (Init/Next) whose invariants TLC checks (M),         *)
(*  - as the oracle of conformance replays: React/Run/RunCut/LimitOutcome     *)
(*    are evaluated by TLC over whole input grammars and written as rows that *)
(*    the harness replays into the real Conn (bindings A/B of DESIGN.md).     *)
EXTENDS WSBase, TLC

(* A frame as the decoder sees it.  Payload bytes are abstracted away: a data frame's      *)
(* payload is identified by the frame's index in the stream (the harness gives every frame *)
(* distinguishable bytes), a control frame's by its index too.                             *)
(*   n      : letter name (concretisation key in the harness)                              *)
(*   op     : opcode 0..15         fin, rsv1, rsv2, rsv3 : header bits                      *)
(*   maskOK : masked iff the sender is a client                                           *)
(*   len    : payload length (only its relation to 125 and to 1 matters to the decoder)   *)
(*   neg    : 64-bit length with the top bit set                                          *)
(*   code   : status code of a Close body (len >= 2), else 0                              *)
F(n, op, fin, r1, r2, r3, mok, len, neg, code) ==
  [n |-> n, op |-> op, fin |-> fin, rsv1 |-> r1, rsv2 |-> r2, rsv3 |-> r3,
   maskOK |-> mok, len |-> len, neg |-> neg, code |-> code]

(* Decoder state: which message is open, whether it is compressed, whether the endpoint   *)
(* has stopped decoding (after a failure or a Close frame).                                *)
St0 == [open |-> "none", comp |-> FALSE, dead |-> FALSE]

(* Protocol violations an endpoint MUST detect (RFC 6455 5.2, 5.4, 5.5, 7.4; RFC 7692 6). *)
Violation(st, f, flate) ==
  \/ f.rsv2 \/ f.rsv3
  \/ f.rsv1 /\ (~flate \/ f.op \notin {OpText, OpBin})
  \/ f.op \notin KnownOps
  \/ ~f.maskOK
  \/ f.neg
  \/ IsControl(f.op) /\ (~f.fin \/ f.len > MaxControlPayload)
  \/ f.op = OpCont /\ st.open = "none"
  \/ f.op \in {OpText, OpBin} /\ st.open # "none"
  \/ f.op = OpClose /\ f.len = 1
  \/ f.op = OpClose /\ f.len >= 2 /\ ~ValidWireCode(f.code)

TypeOf(op) == IF op = OpText THEN "text" ELSE "bin"

(* React(st, f, i, flate): the reference reaction to frame f (the i-th of the stream).     *)
(* Result: next state plus what the application reader and the wire observe.               *)
(*   rd : "none" | "start" (a message becomes readable) | "more" | "end"-flags below       *)
React(st, f, i, flate) ==
  IF st.dead THEN [st |-> st, kind |-> "ignored"]
  ELSE IF Violation(st, f, flate)
    THEN [st |-> [st EXCEPT !.dead = TRUE], kind |-> "fail"]
  ELSE CASE f.op = OpPing  -> [st |-> st, kind |-> "pong"]
         [] f.op = OpPong  -> [st |-> st, kind |-> "pongRcvd"]
         [] f.op = OpClose -> [st |-> [st EXCEPT !.dead = TRUE], kind |-> "close"]
         [] f.op \in {OpText, OpBin} ->
              [st |-> [open |-> IF f.fin THEN "none" ELSE TypeOf(f.op), comp |-> f.rsv1, dead |-> FALSE],
               kind |-> IF f.fin THEN "whole" ELSE "first"]
         [] f.op = OpCont ->
              [st |-> [st EXCEPT !.open = IF f.fin THEN "none" ELSE st.open],
               kind |-> IF f.fin THEN "last" ELSE "middle"]

-----------------------------------------------------------------------------
(* Run: fold React over a whole stream and collect the observable behaviour.               *)
(*   reader : sequence of  [o |-> "msg", t, fr (frame indices whose payloads concatenate)] *)
(*            ended by one of                                                              *)
(*              [o |-> "closeErr", i]           read fails with the CloseError of frame i  *)
(*              [o |-> "fail", acc, t]          read fails; acc = frames of the open msg   *)
(*              [o |-> "transportEnd", acc, t]  stream exhausted; acc = frames of open msg *)
(*   wire   : sequence of [o |-> "pong", i] (payload of ping i), then optionally           *)
(*            [o |-> "closeEcho", i] or [o |-> "closeOpt", code] (a Close frame with that  *)
(*            code may, but need not, be written: RFC 6455 7.1.7)                          *)
RECURSIVE RunFrom(_, _, _, _, _, _, _, _)
RunFrom(s, i, st, acc, typ, rd, wr, flate) ==
  IF i > Len(s)
  THEN [reader |-> Append(rd, [o |-> "transportEnd", acc |-> acc, t |-> typ]), wire |-> wr]
  ELSE LET f == s[i]  r == React(st, f, i, flate) IN
    CASE r.kind = "fail"  -> [reader |-> Append(rd, [o |-> "fail", acc |-> acc, t |-> typ]),
                              wire |-> Append(wr, [o |-> "closeOpt", code |-> 1002])]
      [] r.kind = "close" -> [reader |-> Append(rd, [o |-> "closeErr", i |-> i, acc |-> acc, t |-> typ]),
                              wire |-> Append(wr, [o |-> "closeEcho", i |-> i])]
      [] r.kind = "pong"  -> RunFrom(s, i+1, r.st, acc, typ, rd, Append(wr, [o |-> "pong", i |-> i]), flate)
      [] r.kind = "pongRcvd" -> RunFrom(s, i+1, r.st, acc, typ, rd, wr, flate)
      [] r.kind = "whole" -> RunFrom(s, i+1, r.st, <<>>, "none",
                                     Append(rd, [o |-> "msg", t |-> TypeOf(f.op), fr |-> <<i>>, z |-> f.rsv1]), wr, flate)
      [] r.kind = "first" -> RunFrom(s, i+1, r.st, <<i>>, TypeOf(f.op), rd, wr, flate)
      [] r.kind = "middle" -> RunFrom(s, i+1, r.st, Append(acc, i), typ, rd, wr, flate)
      [] r.kind = "last"  -> RunFrom(s, i+1, r.st, <<>>, "none",
                                     Append(rd, [o |-> "msg", t |-> typ, fr |-> Append(acc, i), z |-> st.comp]), wr, flate)
Run(s, flate) == RunFrom(s, 1, St0, <<>>, "none", <<>>, <<>>, flate)

-----------------------------------------------------------------------------
(* The frame alphabet: valid frames plus frames with exactly one violation.                *)
V(n, op, fin, len) == F(n, op, fin, FALSE, FALSE, FALSE, TRUE, len, FALSE, 0)
Cl(n, len, code)   == F(n, OpClose, TRUE, FALSE, FALSE, FALSE, TRUE, len, FALSE, code)
ValidData ==
  { V("T1", OpText, TRUE, 5), V("B1", OpBin, TRUE, 5), V("T0", OpText, FALSE, 5), V("B0", OpBin, FALSE, 5),
    V("T1e", OpText, TRUE, 0), V("C0", OpCont, FALSE, 5), V("C1", OpCont, TRUE, 5),
    V("C1e", OpCont, TRUE, 0), V("C0e", OpCont, FALSE, 0) }
ValidCtl ==
  { V("PING0", OpPing, TRUE, 0), V("PING3", OpPing, TRUE, 3), V("PING125", OpPing, TRUE, 125),
    V("PONG", OpPong, TRUE, 2) }
Closes ==
  { Cl("CLOSEe", 0, 0), Cl("CLOSE1000", 2, 1000), Cl("CLOSE3000", 2, 3000), Cl("CLOSE4999r", 125, 4999),
    Cl("CLOSE1b", 1, 0), Cl("CLOSE1005", 2, 1005), Cl("CLOSE999", 2, 999), Cl("CLOSE1015", 2, 1015),
    Cl("CLOSE1004", 2, 1004), Cl("CLOSE2999", 2, 2999), Cl("CLOSE5000", 2, 5000), Cl("CLOSE1014", 2, 1014),
    Cl("CLOSE1016", 2, 1016) }
(* rsv1 frames: violations without permessage-deflate, compressed first frames with it *)
Rsv1Data ==
  { F("ZT1", OpText, TRUE,  TRUE, FALSE, FALSE, TRUE, 5, FALSE, 0),
    F("ZB0", OpBin,  FALSE, TRUE, FALSE, FALSE, TRUE, 5, FALSE, 0) }
Bad ==
  { F("RSV2T", OpText, TRUE, FALSE, TRUE, FALSE, TRUE, 5, FALSE, 0),
    F("RSV3P", OpPing, TRUE, FALSE, FALSE, TRUE, TRUE, 0, FALSE, 0),
    F("RSV1C", OpCont, TRUE, TRUE, FALSE, FALSE, TRUE, 5, FALSE, 0),
    F("RSV1PING", OpPing, TRUE, TRUE, FALSE, FALSE, TRUE, 0, FALSE, 0),
    V("OP3", 3, TRUE, 1), V("OP7", 7, TRUE, 0), V("OP11", 11, TRUE, 0), V("OP15", 15, TRUE, 1),
    F("WRONGMASK", OpText, TRUE, FALSE, FALSE, FALSE, FALSE, 5, FALSE, 0),
    F("WRONGMASKP", OpPing, TRUE, FALSE, FALSE, FALSE, FALSE, 3, FALSE, 0),
    V("PING126", OpPing, TRUE, 126), V("PINGFRAG", OpPing, FALSE, 3), V("CLOSEFRAG", OpClose, FALSE, 0),
    V("PONG126", OpPong, TRUE, 126),
    F("NEGLEN", OpBin, TRUE, FALSE, FALSE, FALSE, TRUE, 0, TRUE, 0) }
Letters == ValidData \cup ValidCtl \cup Closes \cup Rsv1Data \cup Bad

(* A letter after which the decoder stops, whatever the state (used to prune enumeration) *)
Terminal(f, flate) == \/ f.op = OpClose
                      \/ (Violation(St0, f, flate) /\ Violation([St0 EXCEPT !.open = "text"], f, flate))

RECURSIVE Seqs(_, _, _)
(* all streams of at most n letters of A that stop at the first terminal letter *)
Seqs(n, A, flate) ==
  IF n = 0 THEN {<<>>}
  ELSE LET prev == Seqs(n-1, A, flate) IN
       prev \cup { Append(p, f) : p \in {q \in prev : Len(q) = n-1 /\ (q = <<>> \/ ~Terminal(q[Len(q)], flate))}, f \in A }

Names(s) == [i \in 1..Len(s) |-> s[i].n]

-----------------------------------------------------------------------------
(* Transport cuts (C04): the stream s is cut after k complete frames, either exactly at a   *)
(* frame boundary, inside the header of frame k+1, or inside its payload.  Whatever the     *)
(* cut, every message completed by the first k frames is delivered, every ping among them   *)
(* is answered, and the final read FAILS (never a clean end); the bytes handed over for the *)
(* message in progress are a prefix of its payload up to the cut.                           *)
RunCut(s, k, where, flate) ==
  LET pre == Run(SubSeq(s, 1, k), flate)
      last == pre.reader[Len(pre.reader)]
      nxt == IF k < Len(s) THEN s[k+1] ELSE V("none", OpPing, TRUE, 0)
      \* frames whose payload may (partly) have been handed to the caller when the read fails
      may == IF where = "payload" /\ nxt.op \in DataOps THEN Append(last.acc, k+1) ELSE last.acc
      typ == IF last.t # "none" THEN last.t
             ELSE IF where = "payload" /\ nxt.op \in {OpText, OpBin} THEN TypeOf(nxt.op) ELSE "none"
  IN [msgs |-> SubSeq(pre.reader, 1, Len(pre.reader) - 1), wire |-> pre.wire,
      partial |-> may, t |-> typ, mustFail |-> TRUE]

-----------------------------------------------------------------------------
(* Read limit (C08): a message whose (decompressed) size is at most the limit is delivered  *)
(* in full; a larger one is never reported complete, at most limit+1 of its bytes are       *)
(* handed over, and a Close frame with status 1009 is written.  limit = -1 disables it.     *)
LimitOutcome(limit, size) ==
  IF limit < 0 \/ size <= limit
  THEN [o |-> "deliver", n |-> size]
  ELSE [o |-> "tooBig", maxHanded |-> limit + 1, close |-> 1009]

(* SetReadLimit called while a message is being read: the statement does not say which of the two limits governs that message, *)
(* so only what holds under either reading is demanded -- a message within both is delivered, a message beyond both is never    *)
(* reported complete, at most (the larger limit)+1 of its bytes are handed over, and 1009 is sent; anything else is open.       *)
MidOutcome(l1, l2, size) ==
  IF (l1 < 0 \/ size <= l1) /\ (l2 < 0 \/ size <= l2) THEN [o |-> "deliver", n |-> size]
  ELSE IF l1 >= 0 /\ size > l1 /\ l2 >= 0 /\ size > l2
    THEN [o |-> "tooBig", maxHanded |-> (IF l1 > l2 THEN l1 ELSE l2) + 1, close |-> 1009]
  ELSE [o |-> "open"]

-----------------------------------------------------------------------------
(* The decoder as a state machine driven by an arbitrary peer (model checking).            *)
CONSTANTS Flate, MaxFrames
VARIABLES st, hist, out
vars == <<st, hist, out>>
Init == st = St0 /\ hist = <<>> /\ out = <<>>
PeerSend(f) ==
  /\ Len(hist) < MaxFrames
  /\ LET r == React(st, f, Len(hist) + 1, Flate) IN
     /\ st' = r.st
     /\ hist' = Append(hist, f)
     /\ out' = Append(out, r.kind)
Next == \E f \in Letters : PeerSend(f)
Spec == Init /\ [][Next]_vars

TypeOK == st.open \in {"none", "text", "bin"} /\ st.comp \in BOOLEAN /\ st.dead \in BOOLEAN
(* after the first failure or Close nothing is decoded any more *)
DeadIsFinal == \A i \in 1..Len(out) : out[i] \in {"fail", "close"} => \A j \in (i+1)..Len(out) : out[j] = "ignored"
(* a compressed message can only be open if permessage-deflate was negotiated *)
CompOnlyIfNegotiated == st.comp /\ st.open # "none" => Flate
(* the step-wise machine and the fold agree *)
FoldAgrees ==
  LET r == Run(hist, Flate)
      fin == r.reader[Len(r.reader)]
  IN (fin.o = "transportEnd") = ~st.dead
(* every ping accepted while alive is answered, in order *)
PongsInOrder ==
  LET r == Run(hist, Flate)
      pings == SelectSeq([i \in 1..Len(hist) |-> i], LAMBDA i : out[i] = "pong")
      pongs == SelectSeq(r.wire, LAMBDA w : w.o = "pong")
  IN [i \in 1..Len(pongs) |-> pongs[i].i] = pings
=============================================================================
