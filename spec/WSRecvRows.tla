----------------------------- MODULE WSRecvRows -----------------------------
(* Row generators (bindings A/B): TLC evaluates the reference decoder of WSRecv over whole   *)
(* input grammars and writes the expected behaviour as NDJSON for the conformance harness.   *)
(* Parameters come from the environment: MODE (c03|c04|c08), N, FLATE (0|1), OUT.            *)
EXTENDS WSRecv, Json, IOUtils, SequencesExt

N      == IF "N" \in DOMAIN IOEnv THEN atoi(IOEnv.N) ELSE 3
FlateP == IF "FLATE" \in DOMAIN IOEnv THEN IOEnv.FLATE = "1" ELSE FALSE
Mode   == IF "MODE" \in DOMAIN IOEnv THEN IOEnv.MODE ELSE "none"
Out    == IOEnv.OUT

---------------------------------------------------------------------------
(* C03: every stream of at most N letters ending at the first terminal letter *)
Alphabet == IF FlateP THEN Letters ELSE Letters
(* ... and long fragmented messages: one message of K+2 frames whose K middle frames are all empty continuations, all 5-byte   *)
(* continuations, or all pings -- K around the constants a decoder built from library parts inherits from them (bufio gives up  *)
(* after 100 reads that return nothing: 100 empty frames in a row inside a compressed message are a valid stream)               *)
Ltr(n) == CHOOSE f \in Letters : f.n = n
Rep(x, k) == [i \in 1..k |-> x]
LongStreams == { <<Ltr(a)>> \o Rep(Ltr(m), k) \o <<Ltr("C1")>> :
                   a \in {"T0"} \cup (IF FlateP THEN {"ZB0"} ELSE {}), m \in {"C0e", "C0", "PING0"}, k \in {100, 130} }
C03Rows == SetToSeq({ [names |-> Names(s), exp |-> Run(s, FlateP)] : s \in Seqs(N, Alphabet, FlateP) \cup LongStreams })

---------------------------------------------------------------------------
(* C04: valid streams (no violation, no Close) cut at every frame count and cut class *)
CutLetters == { f \in ValidData \cup ValidCtl \cup (IF FlateP THEN Rsv1Data ELSE {}) : f.n \notin {"B1", "PING0", "PING125"} }
ValidStream(s) == LET r == Run(s, FlateP) IN r.reader[Len(r.reader)].o = "transportEnd"
HasData(s) == \E i \in 1..Len(s) : s[i].op \in DataOps
CutStreams == { s \in Seqs(N, CutLetters, FlateP) : s # <<>> /\ ValidStream(s) /\ HasData(s) }
CutRow(s) ==
  [names |-> Names(s),
   cuts  |-> [kk \in 1..(Len(s)+1) |->
                [boundary |-> RunCut(s, kk-1, "boundary", FlateP),
                 header   |-> RunCut(s, kk-1, "header", FlateP),
                 payload  |-> RunCut(s, kk-1, "payload", FlateP)]]]
C04Rows == SetToSeq({ CutRow(s) : s \in CutStreams })
(* oracle sanity (checked by TLC when the rows are generated): cutting later never loses a  *)
(* message that an earlier cut would have delivered, and a cut stream never yields more     *)
(* messages than the whole stream.                                                           *)
MsgsOf(r) == SelectSeq(r.reader, LAMBDA x : x.o = "msg")
CutMonotone ==
  \A s \in CutStreams : \A k \in 0..Len(s) : \A w \in {"boundary", "header", "payload"} :
     /\ IsPrefix(RunCut(s, k, w, FlateP).msgs, MsgsOf(Run(s, FlateP)))
     /\ (k > 0 => IsPrefix(RunCut(s, k-1, w, FlateP).msgs, RunCut(s, k, w, FlateP).msgs))

---------------------------------------------------------------------------
(* C08: limits x message sizes x fragmentations x compression *)
Limits == {0, 1, 125, 4096, 32768, 65536}
SizesFor(L) == { x \in {L - 1, L, L + 1, 2*L + 3, 40*L, 7} : x >= 0 }
Frag(size, pat) ==
  CASE pat = "one"  -> <<size>>
    [] pat = "two"  -> <<size \div 2, size - (size \div 2)>>
    [] pat = "emptyMid" -> <<size \div 2, 0, size - (size \div 2)>>
    [] pat = "trailingEmpty" -> <<size, 0>>
    [] pat = "leadingEmpty"  -> <<0, size>>
    [] pat = "many" -> [i \in 1..8 |-> IF i < 8 THEN size \div 8 ELSE size - 7*(size \div 8)]
Pats == {"one", "two", "emptyMid", "trailingEmpty", "leadingEmpty", "many"}
(* set = TRUE: SetReadLimit(L) is called first; set = FALSE only with the default 32768 *)
C08Single ==
  { [prog |-> << [set |-> st2, limit |-> L, frags |-> Frag(sz, p), comp |-> z, final |-> bf,
                  exp |-> LimitOutcome(L, sz)] >>] :
      L \in Limits \cup {-1}, sz \in UNION {SizesFor(l) : l \in Limits}, p \in Pats, z \in BOOLEAN,
      bf \in BOOLEAN,        \* the sender ends the DEFLATE stream of the message with a BFINAL=1 block (RFC 7692 7.2.3.4)
      st2 \in BOOLEAN }
C08SingleOK == { r \in C08Single : LET e == r.prog[1] IN
                   /\ (~e.set => e.limit = 32768) /\ (e.final => e.comp)
                   /\ (e.limit = -1 => ~(e.comp) \/ SumSeq(e.frags) <= 200000)
                   /\ SumSeq(e.frags) \in SizesFor(IF e.limit = -1 THEN 65536 ELSE e.limit) \cup {7} }
(* the limit is sampled when a message starts: a change between messages applies to the next one *)
C08Pairs ==
  { [prog |-> << [set |-> TRUE, limit |-> L1, frags |-> <<s1>>, comp |-> FALSE, final |-> FALSE, exp |-> LimitOutcome(L1, s1)],
                 [set |-> TRUE, limit |-> L2, frags |-> Frag(s2, p), comp |-> z, final |-> FALSE, exp |-> LimitOutcome(L2, s2)] >>] :
      L1 \in {1, 125, -1}, L2 \in {0, 125, 4096, -1}, s1 \in {0, 1, 125}, s2 \in {0, 1, 126, 4097, 9000},
      p \in {"one", "two"}, z \in BOOLEAN }
(* only programs whose first message is delivered continue to a second one *)
C08PairsOK == { r \in C08Pairs : r.prog[1].exp.o = "deliver" }
(* the limit is changed while the message is being read: after midAfter bytes have been handed over, SetReadLimit(midLimit) *)
C08Mid ==
  { [prog |-> << [set |-> TRUE, limit |-> L1, frags |-> Frag(sz, p), comp |-> z, final |-> FALSE, mid |-> TRUE, midAfter |-> k, midLimit |-> L2,
                  exp |-> MidOutcome(L1, L2, sz)] >>] :
      L1 \in {125, 4096, 32768}, L2 \in {-1, 0, 125, 4096, 65536}, sz \in {100, 4000, 5000, 33000, 70000},
      k \in {1, 126, 3000, 20000}, p \in {"one", "two", "many"}, z \in BOOLEAN }
C08MidOK == { r \in C08Mid : LET e == r.prog[1] IN e.midAfter < SumSeq(e.frags) /\ (e.limit < 0 \/ e.midAfter <= e.limit) /\ e.limit # e.midLimit }
C08Rows == SetToSeq(C08SingleOK \cup C08PairsOK \cup C08MidOK)

(* memory clause: what a frame header declares, or how well a payload compresses, must not  *)
(* decide how much is allocated; only what is actually handed over may                       *)
C08Declared ==
  { [kind |-> "declared", declared |-> d, actual |-> a, limit |-> L,
     \* more bytes arrive than the limit allows: the read fails as "too big" (and the peer is told with 1009, whatever the header
     \* declared); otherwise the transport ends inside the frame
     exp |-> [o |-> IF L >= 0 /\ a > L THEN "tooBig" ELSE "fail", maxHanded |-> IF L < 0 THEN a ELSE Min2(a, L + 1)]] :
      d \in {"2p31", "2p40", "2p63m1"}, a \in {0, 10, 5000, 40000}, L \in {-1, 125, 32768} }
C08Bombs ==
  { [kind |-> "bomb", size |-> sz, limit |-> L, exp |-> LimitOutcome(L, sz)] :
      sz \in {1048576, 8388608}, L \in {-1, 0, 125, 32768} }
C08AllocRows == SetToSeq(C08Declared \cup C08Bombs)

LettersSeq == SetToSeq(Letters)

ASSUME Mode = "c03" => /\ PrintT(<<"rows", Len(C03Rows)>>) /\ ndJsonSerialize(Out, C03Rows)
ASSUME Mode = "c04" => /\ CutMonotone /\ PrintT(<<"rows", Len(C04Rows)>>) /\ ndJsonSerialize(Out, C04Rows)
ASSUME Mode = "c08" => /\ PrintT(<<"rows", Len(C08Rows)>>) /\ ndJsonSerialize(Out, C08Rows)
ASSUME Mode = "c08alloc" => /\ PrintT(<<"rows", Len(C08AllocRows)>>) /\ ndJsonSerialize(Out, C08AllocRows)
ASSUME Mode = "letters" => ndJsonSerialize(Out, LettersSeq)
=============================================================================
