---- MODULE WSTimeout ----
(* C10: the timeoutLoop discipline.  Every blocking section hands its context to the          *)
(* timeoutLoop (armedR / armedW) and hands Background (0) back when it succeeds; the loop     *)
(* closes the connection when an armed context is done.  Integer / finite-set abstraction so  *)
(* that Apalache can discharge IndInv as an inductive invariant (programs of unbounded length) *)
(* and TLC can check it on bounded programs.  Harmless: the context of a call that returned   *)
(* successfully never closes the connection.  NoRearm (constant) removes the hand-back, the   *)
(* mutation this property exists to catch.                                                    *)
EXTENDS Integers, FiniteSets
CONSTANTS
  \* @type: Set(Int);
  Calls,
  \* @type: Bool;
  NoRearm
VARIABLES
  \* @type: Int;
  armedR,
  \* @type: Int;
  armedW,
  \* @type: Set(Int);
  inRead,
  \* @type: Set(Int);
  inWrite,
  \* @type: Set(Int);
  succeeded,
  \* @type: Set(Int);
  failed,
  \* @type: Set(Int);
  cancelled,
  \* @type: Bool;
  closed,
  \* @type: Set(Int);
  killedBy
ConstInit == Calls = {1, 2, 3, 4} /\ NoRearm = FALSE
ConstInitMutant == Calls = {1, 2, 3, 4} /\ NoRearm = TRUE
Fresh(c) == c \notin inRead /\ c \notin inWrite /\ c \notin succeeded /\ c \notin failed
Init == armedR = 0 /\ armedW = 0 /\ inRead = {} /\ inWrite = {} /\ succeeded = {} /\ failed = {}
        /\ cancelled = {} /\ closed = FALSE /\ killedBy = {}
BeginRead(c) == ~closed /\ Fresh(c) /\ inRead = {} /\ inRead' = {c} /\ armedR' = c
                /\ UNCHANGED <<armedW, inWrite, succeeded, failed, cancelled, closed, killedBy>>
EndReadOK(c) == c \in inRead /\ ~closed /\ inRead' = {} /\ armedR' = (IF NoRearm THEN armedR ELSE 0) /\ succeeded' = succeeded \cup {c}
                /\ UNCHANGED <<armedW, inWrite, failed, cancelled, closed, killedBy>>
EndReadErr(c) == c \in inRead /\ inRead' = {} /\ failed' = failed \cup {c}
                /\ UNCHANGED <<armedR, armedW, inWrite, succeeded, cancelled, closed, killedBy>>
BeginWrite(c) == ~closed /\ Fresh(c) /\ inWrite = {} /\ inWrite' = {c} /\ armedW' = c
                /\ UNCHANGED <<armedR, inRead, succeeded, failed, cancelled, closed, killedBy>>
EndWriteOK(c) == c \in inWrite /\ ~closed /\ inWrite' = {} /\ armedW' = (IF NoRearm THEN armedW ELSE 0) /\ succeeded' = succeeded \cup {c}
                /\ UNCHANGED <<armedR, inRead, failed, cancelled, closed, killedBy>>
EndWriteErr(c) == c \in inWrite /\ inWrite' = {} /\ failed' = failed \cup {c}
                /\ UNCHANGED <<armedR, armedW, inRead, succeeded, cancelled, closed, killedBy>>
Cancel(c) == c \in Calls /\ cancelled' = cancelled \cup {c}
             /\ UNCHANGED <<armedR, armedW, inRead, inWrite, succeeded, failed, closed, killedBy>>
Fire == /\ ~closed
        /\ \/ armedR # 0 /\ armedR \in cancelled /\ killedBy' = killedBy \cup {armedR}
           \/ armedW # 0 /\ armedW \in cancelled /\ killedBy' = killedBy \cup {armedW}
        /\ closed' = TRUE /\ UNCHANGED <<armedR, armedW, inRead, inWrite, succeeded, failed, cancelled>>
Next == \/ \E c \in Calls : BeginRead(c) \/ EndReadOK(c) \/ EndReadErr(c) \/ BeginWrite(c) \/ EndWriteOK(c) \/ EndWriteErr(c) \/ Cancel(c)
        \/ Fire
vars == <<armedR, armedW, inRead, inWrite, succeeded, failed, cancelled, closed, killedBy>>
Spec == Init /\ [][Next]_vars
Harmless == killedBy \cap succeeded = {}
TypeOK == /\ armedR \in Calls \cup {0} /\ armedW \in Calls \cup {0}
          /\ inRead \subseteq Calls /\ inWrite \subseteq Calls /\ succeeded \subseteq Calls /\ failed \subseteq Calls
          /\ cancelled \subseteq Calls /\ killedBy \subseteq Calls /\ closed \in BOOLEAN
IndInv == /\ TypeOK
          /\ (armedR # 0 => armedR \in inRead \cup failed)
          /\ (armedW # 0 => armedW \in inWrite \cup failed)
          /\ Cardinality(inRead) <= 1 /\ Cardinality(inWrite) <= 1
          /\ succeeded \cap failed = {} /\ succeeded \cap inRead = {} /\ succeeded \cap inWrite = {}
          /\ failed \cap inRead = {} /\ failed \cap inWrite = {}
          /\ inRead \cap inWrite = {}
          /\ (killedBy # {} => closed)
          /\ killedBy \subseteq inRead \cup inWrite \cup failed
          /\ Harmless
IndInit == /\ armedR \in Calls \cup {0} /\ armedW \in Calls \cup {0}
           /\ inRead \in SUBSET Calls /\ inWrite \in SUBSET Calls /\ succeeded \in SUBSET Calls /\ failed \in SUBSET Calls
           /\ cancelled \in SUBSET Calls /\ killedBy \in SUBSET Calls /\ closed \in BOOLEAN
           /\ IndInv
====
