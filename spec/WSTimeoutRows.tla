---------------------------- MODULE WSTimeoutRows ----------------------------
(* Programs for the C10 conformance driver: calls each with its own context; the context is  *)
(* cancelled after the call succeeded (must be harmless) or while the call is blocked (the    *)
(* call must fail promptly and the connection must end up closed).                            *)
EXTENDS Integers, Sequences, TLC, Json, IOUtils, SequencesExt
Ops == {"read", "write", "writer", "ping"}
Ok(op) == [op |-> op, when |-> "afterSuccess"]
Blocked == { [op |-> "read", when |-> "whileBlocked"], [op |-> "read", when |-> "midMessage"],
             [op |-> "write", when |-> "whileBlocked"], [op |-> "writer", when |-> "whileBlocked"],
             [op |-> "write", when |-> "lockWait"], [op |-> "ping", when |-> "pongWait"],
             \* the read is blocked WRITING: it answers a ping of the peer, and the peer does not drain the pong
             [op |-> "read", when |-> "pongWriteBlocked"],
             \* the read is blocked in the middle of a frame HEADER of which k bytes (of a header with a 64-bit length) arrived
             \* in the same transport read as the previous message and are already buffered
             [op |-> "read", when |-> "partialHeader2"], [op |-> "read", when |-> "partialHeader9"], [op |-> "read", when |-> "partialHeader13"],
             \* one context shared by a read and a write that are in flight together: the other call completes first,
             \* then the context is cancelled while this one is still blocked
             [op |-> "read", when |-> "sharedCtxWriteDone"], [op |-> "write", when |-> "sharedCtxReadDone"],
             \* the same with the other call entering its blocking section FIRST (it is held up, the call under test then
             \* enters, the other call is released and completes)
             [op |-> "read", when |-> "sharedCtxWriteFirst"], [op |-> "write", when |-> "sharedCtxReadFirst"] }
OkSeqs(n) == UNION { [1..k -> {Ok(o) : o \in Ops}] : k \in 0..n }
(* the outcome the property demands *)
Outcome(p) == IF p # <<>> /\ p[Len(p)].when # "afterSuccess"
              THEN [lastFails |-> TRUE, closed |-> TRUE]
              ELSE [lastFails |-> FALSE, closed |-> FALSE]
N == IF "N" \in DOMAIN IOEnv THEN atoi(IOEnv.N) ELSE 2
Progs == (OkSeqs(N + 1) \ {<<>>}) \cup { Append(s, b) : s \in OkSeqs(N), b \in Blocked }
Rows == SetToSeq({ [steps |-> p, exp |-> Outcome(p)] : p \in Progs })
ASSUME PrintT(<<"rows", Len(Rows)>>)
ASSUME ndJsonSerialize(IOEnv.OUT, Rows)
VARIABLE x
Init == x = 0
Next == UNCHANGED x
=============================================================================
