------------------------------- MODULE WSTrim -------------------------------
(* compress.go trimLastFourBytesWriter: holds back the last four bytes written (the DEFLATE  *)
(* sync-flush marker 00 00 ff ff is never put on the wire).  Exact transcription of Write.   *)
(* Bytes are positions 1,2,3,... of the input, so order and identity are checked too.        *)
EXTENDS Integers, Sequences, TLC, Json, IOUtils, SequencesExt
CONSTANTS MaxWrite, MaxTotal, MaxOps
VARIABLES tail, emitted, input, log
vars == <<tail, emitted, input, log>>
Init == tail = <<>> /\ emitted = <<>> /\ input = <<>> /\ log = <<>>
Min2(a, b) == IF a < b THEN a ELSE b
(* one call of Write(p), following the branches of the code *)
WriteResult(t, p) ==
  LET extra == Len(t) + Len(p) - 4 IN
  IF extra <= 0 THEN [tail |-> t \o p, out |-> <<>>]
  ELSE LET e == Min2(extra, Len(t))
           out1 == SubSeq(t, 1, e)
           t1 == SubSeq(t, e + 1, Len(t))
       IN IF Len(p) <= 4 THEN [tail |-> t1 \o p, out |-> out1]
          ELSE [tail |-> t1 \o SubSeq(p, Len(p) - 3, Len(p)), out |-> out1 \o SubSeq(p, 1, Len(p) - 4)]
Write(n) == /\ Len(input) + n <= MaxTotal /\ Len(log) < MaxOps
            /\ LET p == [i \in 1..n |-> Len(input) + i]
                   r == WriteResult(tail, p) IN
               /\ tail' = r.tail /\ emitted' = emitted \o r.out /\ input' = input \o p
               /\ log' = Append(log, n)
Next == \E n \in 0..MaxWrite : Write(n)
Spec == Init /\ [][Next]_vars
(* everything written comes out exactly once and in order, except the last four bytes *)
TrimOK == emitted \o tail = input
TailOK == Len(tail) = Min2(4, Len(input))
(* ---- behaviours for replay into the real writer (binding B): every sequence of at most MaxOps writes ---- *)
RECURSIVE Replay(_, _, _, _)
Replay(ops, t, inLen, acc) ==
  IF ops = <<>> THEN acc
  ELSE LET n == Head(ops)
           p == [i \in 1..n |-> inLen + i]
           r == WriteResult(t, p)
       IN Replay(Tail(ops), r.tail, inLen + n, Append(acc, [n |-> n, tail |-> r.tail, out |-> r.out]))
OpSeqs == UNION { [1..k -> 0..MaxWrite] : k \in 1..MaxOps }
TrimRows == SetToSeq({ [ops |-> s, steps |-> Replay(s, <<>>, 0, <<>>)] : s \in OpSeqs })
ASSUME "OUT" \in DOMAIN IOEnv => ndJsonSerialize(IOEnv.OUT, TrimRows)
=============================================================================
