------------------------------ MODULE WSWindow ------------------------------
(* compress.go slidingWindow: the last Cap bytes of everything written (the LZ77 window      *)
(* handed to the inflater as a preset dictionary).  Exact transcription of write.            *)
EXTENDS Integers, Sequences, TLC, Json, IOUtils, SequencesExt
CONSTANTS Cap, MaxTotal, MaxOps
VARIABLES buf, input, log
vars == <<buf, input, log>>
Init == buf = <<>> /\ input = <<>> /\ log = <<>>
WriteResult(b, p) ==
  IF Len(p) >= Cap THEN SubSeq(p, Len(p) - Cap + 1, Len(p))
  ELSE LET left == Cap - Len(b) IN
       IF left < Len(p)
       THEN LET need == Len(p) - left IN SubSeq(b, need + 1, Len(b)) \o p
       ELSE b \o p
Write(n) == /\ Len(input) + n <= MaxTotal /\ Len(log) < MaxOps
            /\ LET p == [i \in 1..n |-> Len(input) + i] IN
               /\ buf' = WriteResult(buf, p) /\ input' = input \o p /\ log' = Append(log, n)
Next == \E n \in 0..(2 * Cap + 1) : Write(n)
Spec == Init /\ [][Next]_vars
SuffixCap(w, s) == IF Len(s) <= w THEN s ELSE SubSeq(s, Len(s) - w + 1, Len(s))
WindowOK == buf = SuffixCap(Cap, input)
BoundOK == Len(buf) <= Cap
(* ---- behaviours for replay into the real slidingWindow (binding B) ---- *)
RECURSIVE Replay(_, _, _, _)
Replay(ops, b, inLen, acc) ==
  IF ops = <<>> THEN acc
  ELSE LET n == Head(ops)
           p == [i \in 1..n |-> inLen + i]
           r == WriteResult(b, p)
       IN Replay(Tail(ops), r, inLen + n, Append(acc, [n |-> n, buf |-> r]))
OpSeqs == UNION { [1..k -> 0..(2 * Cap + 1)] : k \in 1..MaxOps }
WindowRows == SetToSeq({ [cap |-> Cap, ops |-> s, steps |-> Replay(s, <<>>, 0, <<>>)] : s \in OpSeqs })
ASSUME "OUT" \in DOMAIN IOEnv => ndJsonSerialize(IOEnv.OUT, WindowRows)
=============================================================================
